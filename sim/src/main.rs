// Deterministic simulation harness for ellbur/totalmapper. See /verif/DESIGN.md.
#![allow(dead_code, unused_imports, unused_variables, unused_mut, unused_macros, non_snake_case, unexpected_cfgs)]
#![allow(clippy::all)]

#[macro_use]
extern crate enum_display_derive;

// The repository's modules, mounted by build.rs from $VERIF_REPO/src (default /repo/src).
include!(concat!(env!("OUT_DIR"), "/repo_mods.rs"));

mod rng;
mod common;
mod refmodel;
mod gen;
mod engine;
mod keysim;
mod worlda;
mod loopsim;
mod worldb;
mod sysseam;
mod wiresim;
mod storesim;
mod worlde;
mod registry;

use engine::*;

fn usage() -> ! {
  eprintln!("usage: sim check <ID> [--tier quick|thorough] [--seed N] [--runs N] [--threads N] [--no-evidence]\n       sim replay <file>\n       sim selftest [--large]\n       sim list");
  std::process::exit(2);
}

fn main() {
  let args: Vec<String> = std::env::args().collect();
  if args.len() < 2 { usage(); }
  // Panics inside the system under test are caught and classified; keep stderr quiet about them.
  let quiet = std::env::var("VERIF_SHOW_PANICS").is_err();
  if quiet { std::panic::set_hook(Box::new(|_| {})); }
  // a panic of the harness itself (not of the system under test, which is caught per run) must
  // never look like a verdict: exit 2
  engine::start_watchdog();
  let code = match std::panic::catch_unwind(|| match args[1].as_str() {
    "check" => cmd_check(&args[2..]),
    "replay" => cmd_replay(&args[2..]),
    "selftest" => registry::selftest(args.iter().any(|a| a == "--large")),
    "list" => { for p in registry::claimed() { println!("{}", p); } 0 }
    // development aid: how often does the tree under test read an alias-written text differently from the meaning the generator gives it?
    "aliascheck" => {
      let n: u64 = args.get(2).and_then(|x| x.parse().ok()).unwrap_or(20000);
      let canon = |l: &keys::Layout| -> Vec<(Vec<String>, Vec<String>, String, Vec<String>)> { l.mappings.iter().map(|m| { let mut f: Vec<String> = m.from[..m.from.len().saturating_sub(1)].iter().map(common::key_name).collect(); f.sort(); if let Some(k) = m.from.last() { f.push(common::key_name(k)); } (f, m.to.iter().map(common::key_name).collect(), format!("{:?}", m.repeat), m.absorbing.iter().map(common::key_name).collect()) }).collect() };
      let (mut made, mut differ, mut rejected) = (0u64, 0u64, 0u64);
      for i in 0..n {
        let mut rng = rng::Rng::new(rng::mix(0xa11a5, i));
        let o = gen::LayoutOpts { weird: false, related: false, dense: false, absorbing: false, norepeat: true, special: true, max_map: 4, big: rng.chance(1, 3), edge_times: false };
        if let Some((meaning, text)) = gen::gen_alias_written(&mut rng, &o) {
          made += 1;
          match common::load_text(&text) {
            Err(e) => { rejected += 1; if rejected <= 3 { println!("REJECTED: {}\n  {}", e, text); } }
            Ok(l) => { if canon(&l) != canon(&meaning) { differ += 1; if differ <= 5 { println!("DIFFERS: {}\n  loaded  {:?}\n  meaning {:?}", text, canon(&l), canon(&meaning)); } } }
          }
        }
      }
      println!("aliascheck: {} texts, {} rejected by the loader, {} read differently from their meaning", made, rejected, differ);
      0
    }
    _ => usage(),
  }) {
    Ok(c) => c,
    Err(e) => { eprintln!("harness error: internal panic in the harness: {} (re-run with VERIF_SHOW_PANICS=1 for the location)", common::panic_msg(&e)); 2 }
  };
  storesim::cleanup_scratch();
  std::process::exit(code);
}

fn opt<'a>(args: &'a [String], name: &str) -> Option<&'a str> {
  args.iter().position(|a| a == name).and_then(|i| args.get(i + 1)).map(|s| s.as_str())
}

fn cmd_check(args: &[String]) -> i32 {
  if args.is_empty() { usage(); }
  let id = args[0].as_str();
  let tier = opt(args, "--tier").map(|s| s.to_string()).or_else(|| std::env::var("VERIF_TIER").ok()).unwrap_or_else(|| "quick".into());
  let thorough = match tier.as_str() { "quick" => false, "thorough" => true, _ => { eprintln!("harness error: unknown tier {}", tier); return 2; } };
  let seed: u64 = match opt(args, "--seed").map(|s| s.to_string()).or_else(|| std::env::var("VERIF_SEED").ok()) {
    Some(s) => match s.trim().parse::<i128>() { Ok(v) => v as u64, Err(_) => { eprintln!("harness error: bad seed {:?}", s); return 2; } },
    None => DEFAULT_SEED,
  };
  let threads: usize = opt(args, "--threads").and_then(|s| s.parse().ok()).or_else(|| std::env::var("VERIF_THREADS").ok().and_then(|s| s.parse().ok()))
    .unwrap_or_else(|| std::thread::available_parallelism().map(|n| n.get()).unwrap_or(4).min(16));
  let runs: Option<u64> = opt(args, "--runs").and_then(|s| s.parse().ok());
  let spec = match registry::spec_for(id) { Some(s) => s, None => { eprintln!("harness error: no check for property {}", id); return 2; } };
  println!("seed={} tier={} threads={} property={} repo={}", seed, tier, threads, id, env!("VERIF_REPO_BUILT"));
  match registry::determinism_precheck(&spec, seed, thorough) {
    Err(e) => { eprintln!("harness error: determinism self-check failed: {}", e); return 2; }
    Ok(nondet) => { if nondet { engine::SUT_NONDETERMINISTIC.store(true, std::sync::atomic::Ordering::Relaxed); } }
  }
  let rep = run_check(&spec, seed, thorough, threads.max(1), runs, !args.iter().any(|a| a == "--no-evidence"));
  rep.exit
}

fn cmd_replay(args: &[String]) -> i32 {
  if args.is_empty() { usage(); }
  let path = &args[0];
  let text = match std::fs::read_to_string(path) { Ok(t) => t, Err(e) => { eprintln!("harness error: cannot read {}: {}", path, e); return 2; } };
  let doc: serde_json::Value = match serde_json::from_str(&text) { Ok(v) => v, Err(e) => { eprintln!("harness error: {}: {}", path, e); return 2; } };
  let prop = doc.get("property").and_then(|x| x.as_str()).unwrap_or("");
  let cname = doc.get("campaign").and_then(|x| x.as_str()).unwrap_or("");
  let spec = match registry::spec_for(prop) { Some(s) => s, None => { eprintln!("harness error: no check for property {:?}", prop); return 2; } };
  let camp = match spec.campaigns.iter().find(|c| c.name() == cname) { Some(c) => c, None => { eprintln!("harness error: no campaign {:?} in {}", cname, prop); return 2; } };
  let mut reproduced = false;
  for (which, vkey) in [("minimised_case", "minimised_violation"), ("case", "violation")] {
    let case = match doc.get(which) { Some(c) => c, None => continue };
    let want_label = doc.get(vkey).and_then(|v| v.get("label")).and_then(|x| x.as_str()).unwrap_or("");
    let want_step = doc.get(vkey).and_then(|v| v.get("step")).and_then(|x| x.as_u64());
    match camp.replay(case) {
      Err(e) => { eprintln!("harness error: replay of {}: {}", which, e); return 2; }
      Ok(None) => println!("replay {}: no violation (recorded: {} at step {:?})", which, want_label, want_step),
      Ok(Some(v)) => {
        let same = v.label == want_label && Some(v.step as u64) == want_step;
        println!("replay {}: violation class {} at step {}: {}{}", which, v.label, v.step, v.detail, if same { " [same class and step as recorded]" } else { " [differs from recorded]" });
        reproduced = true;
      }
    }
  }
  if reproduced { println!("VIOLATION property={} replay={}", prop, path); 1 } else { 0 }
}
