// World-A campaigns: which layouts, which histories, which oracle family, per property.

use crate::keys::*;
use crate::common::*;
use crate::engine::*;
use crate::gen::*;
use crate::keysim::*;
use crate::rng::Rng;
use serde_json::{json, Value};
use std::panic::{catch_unwind, AssertUnwindSafe};

#[derive(Clone, Copy, PartialEq, Debug)]
pub enum Source { Shipped, Random, Dist, Empty }

pub struct KeyCampaign {
  pub property: &'static str,
  pub source: Source,
  pub en: En,
  /// Some(true) = absorbing forced on, Some(false) = never, None = swarm
  pub absorbing: Option<bool>,
  pub force_norepeat: bool,
  pub force_special: bool,
  pub faults: bool,
  pub resets: bool,
  pub quick_runs: u64,
  pub thorough_runs: u64,
  pub shipped: Vec<NamedLayout>,
}

impl KeyCampaign {
  pub fn new(property: &'static str, source: Source, quick_runs: u64, thorough_runs: u64) -> KeyCampaign {
    let shipped = if source == Source::Shipped { shipped_layouts() } else { vec![] };
    KeyCampaign { property, source, en: En::only(property), absorbing: None, force_norepeat: false, force_special: false, faults: true, resets: false, quick_runs, thorough_runs, shipped }
  }
  pub fn absorbing(mut self, a: Option<bool>) -> Self { self.absorbing = a; self }
  pub fn norepeat(mut self) -> Self { self.force_norepeat = true; self }
  pub fn special(mut self) -> Self { self.force_special = true; self }
  pub fn resets(mut self) -> Self { self.resets = true; self }

  pub fn generate(&self, seed: u64, thorough: bool, st: &mut GenStats) -> CaseA {
    let mut rng = Rng::new(seed);
    // half of the quick runs are drawn with the thorough tier's bounds (up to 7 mappings, larger
    // alphabets, histories up to 120 events, up to 6 keys held): rare multi-condition interactions
    // are far denser there
    let thorough = thorough || rng.chance(1, 2);
    // one random-layout case in ten is written with the alias shorthand (plus repeat-only entries on
    // the alias): the tree under test loads the text, the oracles judge against what it means
    if self.source == Source::Random && self.absorbing != Some(true) && crate::rng::mix(seed, 0xa11a5) % 10 == 0 {
      let mut r2 = Rng::new(crate::rng::mix(seed, 0xa11a6));
      let o = LayoutOpts { weird: false, related: false, dense: false, absorbing: false, norepeat: self.force_norepeat || r2.chance(1, 2), special: self.force_special || r2.chance(1, 2), max_map: 4, big: thorough && r2.chance(1, 2), edge_times: false };
      if let Some((meaning, text)) = gen_alias_written(&mut r2, &o) {
        if through_loader(&meaning).map(|l| l.mappings == meaning.mappings).unwrap_or(false) {
          let ho = swarm_hist(&mut r2, thorough, self.faults, self.resets, false);
          let ops = gen_ops(&mut r2, &meaning, &ho, st);
          return CaseA { layout: meaning, layout_name: "alias-written".to_string(), dist: false, ops, written: Some(text) };
        }
      }
    }
    // one random-layout case in 48 has a wide shape (fans of 9-40 mappings on one final key, triggers
    // of 5-10 keys, outputs of 5-14 keys, long Special and absorbing lists, 20-60 mappings), with
    // up to 12 keys held so that the long chords can actually be formed
    let wide = self.source == Source::Random && crate::rng::mix(seed, 0x71de0) % 48 == 0;
    let (layout, name, dist) = match self.source {
      Source::Shipped => {
        let mut pool: Vec<&NamedLayout> = self.shipped.iter().collect();
        if self.absorbing == Some(false) { pool.retain(|n| !n.layout.mappings.iter().any(|m| !m.absorbing.is_empty())); }
        let n = pool[rng.below(pool.len())];
        (n.layout.clone(), n.name.clone(), false)
      }
      Source::Empty => (Layout { mappings: vec![] }, "empty".to_string(), false),
      Source::Random | Source::Dist => {
        let o = LayoutOpts {
          weird: rng.chance(1, 4),
          related: rng.chance(1, 2),
          dense: rng.chance(1, 4),
          absorbing: match self.absorbing { Some(b) => b, None => rng.chance(1, 2) },
          norepeat: self.force_norepeat || rng.chance(1, 2),
          special: self.force_special || rng.chance(1, 2),
          max_map: if thorough { rng.range(1, 7) } else { rng.range(1, 5) },
          big: thorough && rng.chance(1, 2),
          edge_times: false,
        };
        let dist = self.source == Source::Dist;
        let motif = !dist && rng.chance(1, 3);
        let mut tries = 0;
        loop {
          let l = if wide { gen_wide_layout(&mut rng, &o) } else if dist { gen_dist_layout(&mut rng, &o) } else if motif { gen_motif_layout(&mut rng, &o) } else { gen_layout(&mut rng, &o) };
          tries += 1;
          // every generated layout goes through the real parser and converter
          match through_loader(&l) {
            Some(l2) => break (l2, if wide { "random-wide".to_string() } else if dist { "dist".to_string() } else if motif { "random-alias-motif".to_string() } else { "random".to_string() }, dist),
            None => { if tries > 20 { break (Layout { mappings: vec![] }, "empty-fallback".to_string(), false); } }
          }
        }
      }
    };
    let mut ho = swarm_hist(&mut rng, thorough, self.faults, self.resets, dist);
    if wide && !ho.crowd { ho.max_held = rng.range(4, 12); let l = rng.range(30, 150); ho.len = ho.len.max(l); ho.intents = rng.range(1, 3); st.wide += 1; }
    let ops = gen_ops(&mut rng, &layout, &ho, st);
    // one run in three (never for shipped layouts, whose keys mean what they say) is renamed over
    // the whole key-code space
    if self.source != Source::Shipped && rng.chance(1, 3) {
      let mut used = layout_keys(&layout);
      for o in &ops { match o { Op::Ev(e) | Op::Unseen(e) => { let k = ev_key(e); if !used.contains(&k) { used.push(k); } } Op::Reset => {} } }
      let keep: Vec<KeyCode> = if dist { DIST.to_vec() } else { vec![] };
      let map = random_renaming(&mut rng, &used, &keep);
      let l2 = rename_layout(&map, &layout);
      if let Some(l3) = through_loader(&l2) {
        let ops2: Vec<Op> = ops.iter().map(|o| match o { Op::Ev(e) => Op::Ev(rename_event(&map, e)), Op::Unseen(e) => Op::Unseen(rename_event(&map, e)), Op::Reset => Op::Reset }).collect();
        st.renamed += 1;
        let written = if rng.chance(1, 4) { write_with_repeat_only(&mut rng, &l3) } else { None };
        return CaseA { layout: l3, layout_name: format!("{}-renamed", name), dist, ops: ops2, written };
      }
    }
    // one generated layout in four is written the way a user might: repeat modes in repeat-only entries
    let written = if self.source != Source::Shipped && rng.chance(1, 4) { write_with_repeat_only(&mut rng, &layout) } else { None };
    CaseA { layout, layout_name: name, dist, ops, written }
  }
}

pub fn run_case_a(case: &CaseA, en: &En, obs: &mut Obs) -> Result<Option<Violation>, String> {
  let c = case.clone();
  let en = *en;
  match catch_unwind(AssertUnwindSafe(|| execute(&c, &en, obs))) {
    Ok(v) => Ok(v),
    Err(e) => Err(panic_msg(&e)),
  }
}

impl Campaign for KeyCampaign {
  fn name(&self) -> String { format!("keysim-{}", match self.source { Source::Shipped => "shipped", Source::Random => "random", Source::Dist => "dist", Source::Empty => "empty" }) }
  fn world(&self) -> &'static str { "A" }
  fn runs(&self, thorough: bool) -> u64 { if thorough { self.thorough_runs } else { self.quick_runs } }
  fn declare(&self, acc: &mut Acc) {
    for f in ["chan_duplicate_press", "chan_spurious_release", "chan_dropped_event"] { acc.declare_fault(f); }
    if self.resets { for f in ["reset_release_all", "unseen_key_activity"] { acc.declare_fault(f); } }
  }
  fn run(&self, seed: u64, _idx: u64, ctx: &mut Ctx) -> RunResult {
    let mut st = GenStats::default();
    let case = self.generate(seed, ctx.thorough, &mut st);
    ctx.acc.fault("chan_duplicate_press", st.dup);
    ctx.acc.fault("chan_spurious_release", st.spurious);
    ctx.acc.fault("chan_dropped_event", st.drop);
    ctx.acc.fault("reset_release_all", st.resets);
    ctx.acc.fault("unseen_key_activity", st.unseen);
    ctx.acc.count("intent_steps", st.intent_steps);
    ctx.acc.count("runs_with_keys_renamed_over_the_whole_code_space", st.renamed);
    ctx.acc.count("biased_steps", st.biased);
    ctx.acc.count("runs_with_a_wide_layout_shape", st.wide);
    let mut obs = Obs::default();
    obs.collect_states = true;
    let res = run_case_a(&case, &self.en, &mut obs);
    ctx.acc.count("steps", obs.steps);
    ctx.acc.count("mappings_fired", obs.fired);
    ctx.acc.count("ignored_events", obs.ignored);
    if self.absorbing != Some(false) { ctx.acc.probe_n("absorbing_mapping_fired", obs.p_absorb_fired); }
    ctx.acc.probe_n("special_mapping_fired", obs.p_special_fired);
    ctx.acc.probe_n("disabled_mapping_fired", obs.p_norepeat_fired);
    ctx.acc.probe_n("press_swallowed", obs.p_swallowed);
    ctx.acc.probe_n("two_or_more_mappings_in_effect", obs.p_multi_in_effect);
    ctx.acc.probe_n("returned_to_rest", obs.p_rest_returns);
    ctx.acc.probe_n("layout_written_with_repeat_only_entries", obs.written_forms); ctx.acc.count("written_form_loaded_differently_from_its_meaning", obs.written_differs); ctx.acc.count("written_form_rejected_by_the_loader", obs.written_rejected);
    match self.property {
      "C04" => ctx.acc.probe_n("fired_while_modifier_carrying_mapping_in_effect", obs.p_stale_mod_case),
      "C05" => ctx.acc.probe_n("protected_output_observed", obs.p_c05c_protected),
      "C06" => ctx.acc.probe_n("twin_compared_steps", obs.p_twin_steps),
      "C08" => { ctx.acc.probe_n("same_trigger_repressed_in_epoch", obs.p_epoch_repress); ctx.acc.probe_n("absorbed_key_released_and_pressed_again", obs.p_epoch_closed_by_repress); ctx.acc.probe_n("counts_again_checked", obs.p_c08d_checked); }
      _ => {}
    }
    let nt = nontrivial(self.property, &obs);
    let hash = case.hash();
    let sample = if ctx.want_sample { Some(case.json()) } else { None };
    let mut sut_panic = None;
    let failure = match res {
      Ok(None) => None,
      Ok(Some(v)) => {
        let en = self.en; let c2 = case.clone(); let label = v.label.clone();
        Some(RawFailure { violation: v, case: case.json(), shrink: Box::new(move || { let (m, mv, n) = minimise(&c2, &en, &label, |_| true); (m.json(), mv, n) }) })
      }
      Err(p) => { sut_panic = Some(p); None }
    };
    RunResult { failure, nontrivial: nt, case_hash: hash, state_hashes: obs.state_hashes, sample, digest: obs.digest, sut_panic, harness_error: None, evals: 1 }
  }
  fn replay(&self, case: &Value) -> Result<Option<Violation>, String> {
    let c = CaseA::from_json(case)?;
    let mut obs = Obs::default();
    run_case_a(&c, &self.en, &mut obs).map_err(|p| format!("panic inside the system under test: {}", p))
  }
  fn rule(&self) -> String {
    let src = match self.source {
      Source::Shipped => "layout = one of the five built-in layouts or a README example (loaded by the real parser+converter)",
      Source::Random => "layout = random small layout (1-5 mappings quick, 1-7 thorough; 0-2 (now and then 3) trigger modifiers + final key; output empty | modifiers | modifiers+key, a quarter of the runs also unusual shapes; repeat Normal/Disabled/Special; absorbing subset of trigger modifiers; a third of the layouts are alias motifs as the @alias/row shorthands expand to, half of the others derive mappings from earlier ones) passed through the real loader; one case in three renamed by a random injective map over the whole key-code space",
      Source::Dist => "layout = random small layout (plain, derived or alias motif) with distinguishable outputs (mapping i ends in its own key F13..F20, never pressed physically) passed through the real loader; one case in three renamed over the whole key-code space (distinguished keys stay)",
      Source::Empty => "layout = empty",
    };
    format!("{}; history = seeded schedule of key actors, 0-3 chord intents and state-aware bias, at most N keys held (N 1-4 quick, 1-6 thorough), length 4-40 quick / 4-120 thorough (one history in 200 is a marathon of 300-1200 / 300-3000 events), channel faults (duplicate press, spurious release, dropped event; swarm: half of the runs fault-free){}; a case is distinct by hash of (layout, ops); non-trivial = {}",
      src, if self.resets { ", reset blocks (release_all, unseen activity, release_all)" } else { "" }, nontrivial_rule(self.property))
  }
  fn components(&self) -> Value {
    json!({"real": ["key_transforms::Mapper::for_layout", "Mapper::step", "Mapper::release_all", "layout_parsing_formatting::parse_layout_from_json", "fancy_layout_interpreting::convert"],
           "stub": ["physical keyboard (key actors)", "evdev delivery channel", "virtual keyboard (fold of emitted events)"],
           "trusted": ["reference control model R (refmodel.rs) where the oracle uses it"]})
  }
}

pub fn nontrivial_rule(p: &str) -> &'static str {
  match p {
    "C01" => "the run returned to rest at least once after a mapping fired while >=2 keys were held",
    "C02" => "a mapping was in effect while a key outside its trigger was held",
    "C03" => ">=2 mappings share the pressed final key and >=1 other key was held when one fired",
    "C04" => "a key-producing mapping fired while an earlier modifier-carrying key-producing mapping was still in effect",
    "C05" => "a chord fired while a foreign key was held or another mapping was in effect",
    "C06" => "the segment before a rest/reset fired an absorbing or Special mapping",
    "C07" => "a no-repeat mapping fired while another key was down on the virtual keyboard",
    "C08" => "an absorb epoch saw >=1 press of a key other than its trigger",
    "C09" => "a Special mapping fired while another mapping was in effect, or an ignored event arrived while a repeat was pending",
    "C19" => "a step emitted >=3 events while >=2 mappings were in effect",
    _ => "at least one mapping fired",
  }
}
