// Seeded generation of world-A cases: layouts (random small, distinguishable, shipped) and
// key histories produced by key actors, intent actors ("perform mapping m's chord"), a
// state-aware scheduler and a faulty delivery channel (duplicate, spurious release, drop),
// plus reset blocks. Everything is drawn from the one PRNG handed in.

use crate::keys::*;
use crate::rng::Rng;
use crate::common::*;
use crate::refmodel::{Ref, RefOutcome};
use KeyCode::*;

pub const TRIG_POOL: &[KeyCode] = &[A, B, C, CAPSLOCK, TAB, LEFTSHIFT, RIGHTSHIFT, LEFTCTRL];
pub const TRIG_POOL_BIG: &[KeyCode] = &[A, B, C, D, E, CAPSLOCK, TAB, LEFTSHIFT, RIGHTSHIFT, LEFTCTRL, RIGHTCTRL, LEFTALT, RIGHTALT, LEFTMETA, RIGHTMETA];
pub const OUT_MODS: &[KeyCode] = &[LEFTSHIFT, LEFTCTRL, LEFTALT, RIGHTSHIFT];
pub const OUT_MODS_BIG: &[KeyCode] = &[LEFTSHIFT, LEFTCTRL, LEFTALT, RIGHTSHIFT, RIGHTCTRL, RIGHTALT, LEFTMETA, RIGHTMETA];
pub const OUT_ACT: &[KeyCode] = &[A, B, X, Y, CAPSLOCK, F13, F14];
pub const OUT_ACT_BIG: &[KeyCode] = &[A, B, C, D, X, Y, Z, CAPSLOCK, TAB, F13, F14];
/// keys used as "appear nowhere in the layout" candidates (filtered against the layout)
pub const FOREIGN: &[KeyCode] = &[Q, RIGHTALT, W, RIGHTMETA];
/// distinguished output keys: mapping i's output ends in DIST[i]; never pressed physically
pub const DIST: &[KeyCode] = &[F13, F14, F15, F16, F17, F18, F19, F20];

#[derive(Clone, Debug)]
pub struct LayoutOpts {
  /// unusual but legal output shapes: two non-modifier keys, a modifier after a key, three
  /// trigger modifiers
  pub weird: bool,
  /// derive some mappings from earlier ones (shared modifiers, chained outputs, outputs that are
  /// another mapping's trigger or absorbed key, shared absorbing lists): interacting mappings are
  /// where the state machine is most fragile
  pub related: bool,
  /// few keys, many interactions: five trigger keys, two output modifiers, three output keys,
  /// absorbing lists on half of the chords, outputs that often contain a trigger modifier
  pub dense: bool,
  pub absorbing: bool,
  pub norepeat: bool,
  pub special: bool,
  pub max_map: usize,
  pub big: bool,
  /// Special delays/intervals: 0 = fixed-ish (100..200 / 10..60), 1 = include 0 delay and 1 ms interval
  pub edge_times: bool,
}

fn uniq_push(v: &mut Vec<KeyCode>, k: KeyCode) { if !v.contains(&k) { v.push(k); } }

/// Layout shaped like what the alias/row shorthands expand to in the shipped layouts: a few
/// "alias keys" (layer keys or modifiers), each optionally mapped alone to nothing or to a
/// modifier, and for every final key one chord per alias key with the same output, repeat mode and
/// absorbing decision. A few unrelated mappings may follow.
pub fn gen_motif_layout(rng: &mut Rng, o: &LayoutOpts) -> Layout {
  let trig = if o.big { TRIG_POOL_BIG } else { TRIG_POOL };
  let omods = if o.big { OUT_MODS_BIG } else { OUT_MODS };
  let oact = if o.big { OUT_ACT_BIG } else { OUT_ACT };
  let mut mappings: Vec<Mapping> = vec![];
  let na = rng.range(1, 3);
  let mut aliases: Vec<KeyCode> = vec![];
  while aliases.len() < na { let k = rng.pick(trig); uniq_push(&mut aliases, k); }
  for a in &aliases {
    match rng.below(4) {
      0 => mappings.push(Mapping { from: vec![*a], to: vec![], repeat: Repeat::Normal, absorbing: vec![] }),
      1 => mappings.push(Mapping { from: vec![*a], to: vec![rng.pick(omods)], repeat: Repeat::Normal, absorbing: vec![] }),
      _ => {}
    }
  }
  let nf = rng.range(1, 3);
  let mut finals: Vec<KeyCode> = vec![];
  let mut guard = 0;
  while finals.len() < nf && guard < 50 { guard += 1; let k = rng.pick(trig); if !aliases.contains(&k) { uniq_push(&mut finals, k); } }
  for f in &finals {
    let mut to: Vec<KeyCode> = vec![];
    if rng.chance(1, 3) { to.push(rng.pick(omods)); }
    if !rng.chance(1, 8) { let k = if rng.chance(1, 4) { *f } else { rng.pick(oact) }; uniq_push(&mut to, k); }
    let absorb = o.absorbing && rng.chance(1, 2);
    let repeat = if o.norepeat && rng.chance(1, 4) { Repeat::Disabled } else if o.special && rng.chance(1, 4) {
      let mut keys = vec![]; for _ in 0..rng.below(3) { let k = if rng.chance(1, 3) { rng.pick(omods) } else { rng.pick(oact) }; uniq_push(&mut keys, k); }
      Repeat::Special { keys, delay_ms: 100 + rng.below(100) as i32, interval_ms: 10 + rng.below(50) as i32 }
    } else { Repeat::Normal };
    // an output-side alias stands for the key chosen on the trigger side ("@shift A" -> "@shift X"):
    // the chord's output then begins with its own (possibly absorbed) alias key
    let alias_out = rng.chance(1, 3);
    let with_alias = |a: &KeyCode, to: &Vec<KeyCode>| -> Vec<KeyCode> { if alias_out && !to.contains(a) && to.iter().any(|k| !is_mod(k)) { let mut t = vec![*a]; t.extend(to.iter().cloned()); t } else { to.clone() } };
    for a in &aliases {
      if rng.chance(1, 10) { continue; }
      mappings.push(Mapping { from: vec![*a, *f], to: with_alias(a, &to), repeat: repeat.clone(), absorbing: if absorb { vec![*a] } else { vec![] } });
    }
    // now and then the plain key is remapped too, or a two-alias chord exists
    if rng.chance(1, 4) { mappings.push(Mapping { from: vec![*f], to: vec![rng.pick(oact)], repeat: Repeat::Normal, absorbing: vec![] }); }
    if aliases.len() >= 2 && rng.chance(1, 3) { let t2 = vec![rng.pick(oact)]; let which = aliases[rng.below(2)]; mappings.push(Mapping { from: vec![aliases[0], aliases[1], *f], to: with_alias(&which, &t2), repeat: Repeat::Normal, absorbing: if absorb { vec![aliases[0], aliases[1]] } else { vec![] } }); }
  }
  let mut o2 = o.clone(); o2.max_map = 2;
  if rng.chance(1, 3) { mappings.extend(gen_layout(rng, &o2).mappings); }
  mappings.truncate(if o.big { 12 } else { 9 });
  Layout { mappings }
}

pub const TRIG_POOL_DENSE: &[KeyCode] = &[LEFTSHIFT, LEFTALT, CAPSLOCK, A, B];
pub const OUT_MODS_DENSE: &[KeyCode] = &[LEFTSHIFT, LEFTALT];
pub const OUT_ACT_DENSE: &[KeyCode] = &[A, X, CAPSLOCK];

/// One Special repeat in eight waits minutes, hours or a day: legal values that sit beyond the
/// places where milliseconds stop fitting (i32 microseconds at 2 147 483 ms, the 1 789 569 ms
/// some poll implementations clamp to). Simulated time costs nothing.
pub fn long_times(rng: &mut Rng, d: i32, i: i32) -> (i32, i32) {
  if !rng.chance(1, 8) { return (d, i); }
  let dl = [600_000, 1_800_000, 2_700_000, 3_600_000, 86_400_000];
  let il = [1_800_000, 2_200_000, 3_600_000, 86_400_000];
  match rng.below(3) { 0 => (rng.pick(&dl), i), 1 => (d, rng.pick(&il)), _ => (rng.pick(&dl), rng.pick(&il)) }
}

pub fn gen_layout(rng: &mut Rng, o: &LayoutOpts) -> Layout {
  let trig = if o.dense { TRIG_POOL_DENSE } else if o.big { TRIG_POOL_BIG } else { TRIG_POOL };
  let omods = if o.dense { OUT_MODS_DENSE } else if o.big { OUT_MODS_BIG } else { OUT_MODS };
  let oact = if o.dense { OUT_ACT_DENSE } else if o.big { OUT_ACT_BIG } else { OUT_ACT };
  let n = 1 + rng.below(o.max_map);
  let mut mappings = vec![];
  // people paste the same custom repeat onto several keys: Special repeats come mostly from a
  // small per-layout palette, so that different mappings carry identical requests
  let mut palette: Vec<Repeat> = vec![];
  for _ in 0..rng.range(1, 2) {
    let mut keys = vec![];
    let nk = rng.below(3);
    while keys.len() < nk { let k = if rng.chance(1, 3) { rng.pick(omods) } else { rng.pick(oact) }; uniq_push(&mut keys, k); }
    let (d, i) = if o.edge_times && rng.chance(1, 3) { ([0, 1, 5][rng.below(3)], [1, 2, 7][rng.below(3)]) } else { (100 + rng.below(100) as i32, 10 + rng.below(50) as i32) };
    // the loader accepts any integers here; the mapper-level properties do not exclude them
    let (d, i) = if o.weird && !o.edge_times && rng.chance(1, 4) { ([-1, 0, -2147483648, d][rng.below(4)], [0, -1, i, i][rng.below(4)]) } else { (d, i) };
    let (d, i) = long_times(rng, d, i);
    palette.push(Repeat::Special { keys, delay_ms: d, interval_ms: i });
  }
  for _ in 0..n {
    let nm = if o.dense { [0, 1, 1, 2, 2][rng.below(5)] } else if o.weird && rng.chance(1, 6) { 3 } else { [0, 0, 1, 1, 1, 2][rng.below(6)] };
    let mut from: Vec<KeyCode> = vec![];
    let base: Option<Mapping> = if o.related && !mappings.is_empty() && rng.chance(1, 2) { Some(rng.pick(&mappings)) } else { None };
    if let Some(b) = &base {
      let bm: &Mapping = b;
      match rng.below(4) {
        0 => { for k in &bm.from[..bm.from.len() - 1] { uniq_push(&mut from, *k); } }            // same modifiers, other final key
        1 => { for k in &bm.from { uniq_push(&mut from, *k); } }                                   // the whole chord as prefix (extension)
        2 => { if let Some(k) = bm.to.first() { uniq_push(&mut from, *k); } }                      // chained: triggered by what b outputs
        _ => { if bm.from.len() > 1 { uniq_push(&mut from, bm.from[rng.below(bm.from.len() - 1)]); } } // one shared modifier
      }
      if from.len() > 3 { from.truncate(3); }
      let want = from.len() + 1;
      let mut guard = 0;
      while from.len() < want && guard < 50 { let k = rng.pick(trig); uniq_push(&mut from, k); guard += 1; }
    }
    while from.len() < nm + 1 { let k = rng.pick(trig); uniq_push(&mut from, k); }
    let mut to: Vec<KeyCode> = vec![];
    let kind = rng.below(10);
    if kind != 0 {
      let nmods = [0, 0, 0, 1, 1, 2][rng.below(6)];
      while to.len() < nmods { let k = rng.pick(omods); uniq_push(&mut to, k); }
      if kind == 1 { if to.is_empty() { to.push(rng.pick(omods)); } }
      else {
        // sometimes output a key of the trigger (identity-like mappings are common in real layouts)
        let k = if rng.chance(1, 6) { *from.last().unwrap() } else { rng.pick(oact) };
        if is_mod(&k) { if to.is_empty() { to.push(k); } } else { to.push(k); }
        if o.weird && rng.chance(1, 4) {
          // a second non-modifier key, or a modifier listed after the key
          let k2 = if rng.chance(1, 2) { rng.pick(oact) } else { rng.pick(omods) };
          uniq_push(&mut to, k2);
        }
      }
    }
    if let Some(b) = &base {
      // outputs that interact with the base mapping: one of its trigger keys, its absorbed key, or
      // the very same output
      match rng.below(5) {
        0 => { let k = rng.pick(&b.from); if is_mod(&k) { let mut t2 = vec![k]; for x in &to { uniq_push(&mut t2, *x); } to = t2; } else if !to.iter().any(|x| !is_mod(x)) { to.push(k); } }
        1 => { if let Some(k) = b.absorbing.first() { if is_mod(k) { let mut t2 = vec![*k]; for x in &to { uniq_push(&mut t2, *x); } to = t2; } else if to.is_empty() { to.push(*k); } } }
        2 => { to = b.to.clone(); }
        _ => {}
      }
    }
    let repeat = if o.norepeat && rng.chance(1, 4) { Repeat::Disabled }
      else if o.special && rng.chance(1, 4) && rng.chance(2, 3) { rng.pick(&palette) }
      else if o.special && rng.chance(1, 4) {
        let mut keys = vec![];
        let nk = rng.below(3) + if rng.chance(1, 8) { 1 } else { 0 };
        while keys.len() < nk { let k = if rng.chance(1, 3) { rng.pick(omods) } else { rng.pick(oact) }; uniq_push(&mut keys, k); }
        let (d, i) = if o.edge_times && rng.chance(1, 3) { ([0, 1, 5][rng.below(3)], [1, 2, 7][rng.below(3)]) } else { (100 + rng.below(100) as i32, 10 + rng.below(50) as i32) };
        let (d, i) = long_times(rng, d, i);
        Repeat::Special { keys, delay_ms: d, interval_ms: i }
      } else { Repeat::Normal };
    if o.dense && rng.chance(1, 3) && from.len() > 1 && to.iter().any(|k| !is_mod(k)) {
      // the output begins with one of the chord's own modifiers
      let k = from[rng.below(from.len() - 1)];
      if !to.contains(&k) { let mut t2 = vec![k]; t2.extend(to.iter().cloned()); to = t2; }
    }
    let mut absorbing = vec![];
    if o.absorbing && from.len() > 1 && rng.chance(1, if o.dense || o.related { 2 } else { 3 }) {
      for k in &from[..from.len() - 1] { if rng.chance(if o.dense { 3 } else { 2 }, if o.dense { 4 } else { 3 }) { absorbing.push(*k); } }
    }
    mappings.push(Mapping { from, to, repeat, absorbing });
  }
  Layout { mappings }
}

/// Wide shapes: every dimension of a layout that is small in the other generators is large here,
/// one at a time or together - many mappings ending in the same key (a fan over modifier subsets),
/// long triggers with their sub-chords, long outputs, long Special key lists and absorbing lists,
/// many mappings. Shipped layouts have hundreds of mappings but short triggers and outputs; a fixed
/// capacity, a small-vector spill, a bit mask over positions or a quadratic scan with an early exit
/// shows only beyond some size.
pub fn gen_wide_layout(rng: &mut Rng, o: &LayoutOpts) -> Layout {
  let modpool: &[KeyCode] = &[LEFTSHIFT, RIGHTSHIFT, LEFTCTRL, RIGHTCTRL, LEFTALT, RIGHTALT, LEFTMETA, RIGHTMETA, CAPSLOCK, TAB];
  let actpool: &[KeyCode] = &[A, B, C, D, E, F, G, H, I, J, K, L, M, N, X, Y, Z, F13, F14, F15, F16];
  let mut mappings: Vec<Mapping> = vec![];
  let pick_repeat = |rng: &mut Rng, long: bool| -> Repeat {
    if o.norepeat && rng.chance(1, 4) { Repeat::Disabled }
    else if o.special && rng.chance(1, 3) {
      let mut keys = vec![];
      let nk = if long { rng.range(4, 12) } else { rng.below(3) };
      let mut guard = 0;
      while keys.len() < nk && guard < 100 { guard += 1; let k = if rng.chance(1, 3) { rng.pick(modpool) } else { rng.pick(actpool) }; uniq_push(&mut keys, k); }
      Repeat::Special { keys, delay_ms: 100 + rng.below(100) as i32, interval_ms: 10 + rng.below(50) as i32 }
    } else { Repeat::Normal }
  };
  let small_out = |rng: &mut Rng| -> Vec<KeyCode> {
    let mut to = vec![];
    match rng.below(6) { 0 => {}, 1 => { to.push(rng.pick(&modpool[..8])); } 2 => { to.push(rng.pick(&modpool[..8])); uniq_push(&mut to, rng.pick(actpool)); } _ => { to.push(rng.pick(actpool)); } }
    to
  };
  let shapes = 1 + rng.below(2);
  for _ in 0..shapes {
    match rng.below(5) {
      0 => {
        // fan: one or two final keys, 9-40 mappings over distinct subsets of 4-6 chord keys
        let nm = rng.range(4, 6);
        let mut mods: Vec<KeyCode> = vec![];
        while mods.len() < nm { let k = rng.pick(modpool); uniq_push(&mut mods, k); }
        let f = rng.pick(actpool);
        let want = rng.range(9, 40);
        let mut seen: Vec<u32> = vec![];
        let mut guard = 0;
        while seen.len() < want && guard < 400 {
          guard += 1;
          let mask = rng.below(1usize << nm) as u32;
          if seen.contains(&mask) { continue; }
          seen.push(mask);
          let mut from: Vec<KeyCode> = vec![];
          for (i, k) in mods.iter().enumerate() { if mask & (1 << i) != 0 { from.push(*k); } }
          if rng.chance(1, 3) { let n = from.len(); if n > 1 { let i = rng.below(n); let j = rng.below(n); from.swap(i, j); } }
          let absorbing: Vec<KeyCode> = if o.absorbing && rng.chance(1, 4) { from.iter().filter(|_| rng.chance(1, 2)).cloned().collect() } else { vec![] };
          from.push(f);
          mappings.push(Mapping { from, to: small_out(rng), repeat: pick_repeat(rng, false), absorbing });
        }
      }
      1 => {
        // a long trigger (5-10 keys) and some of its sub-chords and prefixes
        let n = rng.range(5, 10);
        let mut from: Vec<KeyCode> = vec![];
        let mut guard = 0;
        while from.len() < n && guard < 200 { guard += 1; let k = if rng.chance(2, 3) { rng.pick(modpool) } else { rng.pick(actpool) }; uniq_push(&mut from, k); }
        for _ in 0..rng.below(4) {
          let cut = rng.range(1, from.len() - 1);
          let mut sub: Vec<KeyCode> = from[..cut].to_vec();
          if rng.chance(1, 2) { uniq_push(&mut sub, *from.last().unwrap()); }
          mappings.push(Mapping { from: sub, to: small_out(rng), repeat: pick_repeat(rng, false), absorbing: vec![] });
        }
        let absorbing: Vec<KeyCode> = if o.absorbing && rng.chance(1, 2) { from[..from.len() - 1].iter().filter(|_| rng.chance(2, 3)).cloned().collect() } else { vec![] };
        mappings.push(Mapping { from, to: small_out(rng), repeat: pick_repeat(rng, false), absorbing });
      }
      2 => {
        // long outputs (5-14 keys: modifiers, then keys; now and then mixed)
        for _ in 0..rng.range(1, 3) {
          let mut from: Vec<KeyCode> = vec![];
          for _ in 0..rng.below(3) { uniq_push(&mut from, rng.pick(modpool)); }
          let mut guard = 0;
          loop { guard += 1; let k = rng.pick(actpool); if !from.contains(&k) || guard > 50 { uniq_push(&mut from, k); break; } }
          let n = rng.range(5, 14);
          let mut to: Vec<KeyCode> = vec![];
          let nmods = rng.below(5);
          let mut guard = 0;
          while to.len() < nmods && guard < 100 { guard += 1; uniq_push(&mut to, rng.pick(&modpool[..8])); }
          while to.len() < n && guard < 300 { guard += 1; let k = if rng.chance(1, 8) { rng.pick(&modpool[..8]) } else { rng.pick(actpool) }; uniq_push(&mut to, k); }
          let absorbing: Vec<KeyCode> = if o.absorbing && from.len() > 1 && rng.chance(1, 3) { vec![from[0]] } else { vec![] };
          mappings.push(Mapping { from, to, repeat: pick_repeat(rng, false), absorbing });
        }
      }
      3 => {
        // long Special key lists and long absorbing lists
        for _ in 0..rng.range(1, 3) {
          let mut from: Vec<KeyCode> = vec![];
          let nm = rng.range(1, 6);
          let mut guard = 0;
          while from.len() < nm && guard < 100 { guard += 1; uniq_push(&mut from, rng.pick(modpool)); }
          loop { let k = rng.pick(actpool); if !from.contains(&k) { from.push(k); break; } }
          let absorbing: Vec<KeyCode> = if o.absorbing { from[..from.len() - 1].iter().filter(|_| rng.chance(3, 4)).cloned().collect() } else { vec![] };
          let repeat = if o.special { let r = pick_repeat(rng, true); r } else { pick_repeat(rng, false) };
          mappings.push(Mapping { from, to: small_out(rng), repeat, absorbing });
        }
      }
      _ => {
        // many small mappings (20-60)
        let mut o2 = o.clone(); o2.max_map = rng.range(20, 60); o2.big = true; o2.dense = false;
        let l = gen_layout(rng, &o2);
        mappings.extend(l.mappings);
      }
    }
  }
  // shuffle lightly: swap a few positions so that list order and construction order differ
  for _ in 0..rng.below(4) { if mappings.len() > 1 { let i = rng.below(mappings.len()); let j = rng.below(mappings.len()); mappings.swap(i, j); } }
  Layout { mappings }
}

/// Variant with distinguishable outputs: mapping i's output ends in its own key DIST[i]
/// (or is empty / modifiers only, now and then).
pub fn gen_dist_layout(rng: &mut Rng, o: &LayoutOpts) -> Layout {
  let mut o = o.clone();
  o.max_map = o.max_map.min(DIST.len());
  let mut l = if rng.chance(1, 3) { gen_motif_layout(rng, &o) } else { gen_layout(rng, &o) };
  l.mappings.truncate(DIST.len());
  for (i, m) in l.mappings.iter_mut().enumerate() {
    let keep_mods: Vec<KeyCode> = m.to.iter().filter(|k| is_mod(k)).cloned().collect();
    let r = rng.below(10);
    if r == 0 { m.to = vec![]; }
    else if r == 1 && !keep_mods.is_empty() { m.to = keep_mods; }
    else { m.to = keep_mods; m.to.push(DIST[i]); }
    if let Repeat::Special { keys, .. } = &mut m.repeat { keys.retain(|k| !DIST.contains(k)); }
  }
  l
}

/// Pass a generated layout through the real parser and converter, so it is by construction
/// "a layout the loader accepts" (None if the loader rejects it).
pub fn through_loader(l: &Layout) -> Option<Layout> {
  load_value(&layout_json(l)).ok()
}

/// A layout written with the alias shorthand, together with what the text means as a plain list of
/// mappings (the README's rules: an alias definition `{"from": K.., "to": [initial.., "@a"]}` is
/// also the mapping K.. -> initial.. unless K.. is exactly one standard modifier; a mapping whose
/// trigger names "@a" stands for one mapping per definition, in definition order, an "@a" on the
/// output side standing for the keys chosen on the trigger side; a repeat-only entry sets the repeat
/// mode of the mappings with the same trigger set or, where there is none, adds an identity mapping
/// at the end). The tree under test loads the text; the oracles judge against the meaning. This is
/// not a check of the expansion itself (C13 is not claimed): it lets the run-time oracles see layouts
/// that went through the alias and repeat-only paths of the converter.
pub fn gen_alias_written(rng: &mut Rng, o: &LayoutOpts) -> Option<(Layout, String)> {
  use serde_json::json;
  let trig = if o.big { TRIG_POOL_BIG } else { TRIG_POOL };
  let omods = if o.big { OUT_MODS_BIG } else { OUT_MODS };
  let oact = if o.big { OUT_ACT_BIG } else { OUT_ACT };
  let names = |ks: &Vec<KeyCode>| -> Vec<serde_json::Value> { ks.iter().map(|k| json!(key_name(k))).collect() };
  let repeat_json = |r: &Repeat| -> serde_json::Value { layout_json(&Layout { mappings: vec![Mapping { from: vec![A], to: vec![], repeat: r.clone(), absorbing: vec![] }] })["mappings"][0].get("repeat").cloned().unwrap_or(json!("Normal")) };
  let mut entries: Vec<serde_json::Value> = vec![];
  let mut meaning: Vec<Mapping> = vec![];
  // definitions of the one alias
  let nd = rng.range(1, 3);
  let mut defs: Vec<Vec<KeyCode>> = vec![];
  let mut guard = 0;
  while defs.len() < nd && guard < 40 {
    guard += 1;
    let from: Vec<KeyCode> = if rng.chance(1, 5) { let a = rng.pick(omods); let b = rng.pick(omods); if a == b { continue; } vec![a, b] } else { vec![rng.pick(trig)] };
    if defs.iter().any(|d| d.iter().any(|k| from.contains(k))) { continue; }
    let initial: Vec<KeyCode> = match rng.below(3) { 0 => { let m = rng.pick(omods); if from.contains(&m) { vec![] } else { vec![m] } } _ => vec![] };
    let mut to = names(&initial); to.push(json!("@a"));
    entries.push(json!({"from": names(&from), "to": to}));
    if !(from.len() == 1 && is_mod(&from[0])) { meaning.push(Mapping { from: from.clone(), to: initial, repeat: Repeat::Normal, absorbing: vec![] }); }
    defs.push(from);
  }
  if defs.is_empty() { return None; }
  let used: Vec<KeyCode> = defs.iter().flatten().cloned().collect();
  let gen_repeat = |rng: &mut Rng| -> Repeat {
    if o.norepeat && rng.chance(1, 3) { Repeat::Disabled } else if o.special && rng.chance(1, 3) {
      let mut keys = vec![]; for _ in 0..rng.below(3) { let k = if rng.chance(1, 3) { rng.pick(omods) } else { rng.pick(oact) }; uniq_push(&mut keys, k); }
      Repeat::Special { keys, delay_ms: 100 + rng.below(100) as i32, interval_ms: 10 + rng.below(50) as i32 }
    } else { Repeat::Normal } };
  // chords on the alias
  let nf = rng.range(1, 3);
  let mut finals: Vec<KeyCode> = vec![];
  guard = 0;
  while finals.len() < nf && guard < 40 { guard += 1; let k = rng.pick(trig); if !used.contains(&k) { uniq_push(&mut finals, k); } }
  let mut repeat_only: Vec<(Vec<Vec<KeyCode>>, Repeat)> = vec![];
  for f in &finals {
    let mut to: Vec<KeyCode> = vec![];
    if rng.chance(1, 3) { let m = rng.pick(omods); if !used.contains(&m) { to.push(m); } }
    if !rng.chance(1, 8) { let k = if rng.chance(1, 4) { *f } else { rng.pick(oact) }; if !used.contains(&k) { uniq_push(&mut to, k); } }
    let alias_out = rng.chance(1, 3) && to.iter().any(|k| !is_mod(k));
    let repeat = gen_repeat(rng);
    match rng.below(6) {
      // the chord is mapped for one definition only, by a plain entry, and a repeat-only entry names the alias
      0 if defs.len() >= 2 => {
        let d = &defs[rng.below(defs.len())];
        let mut from = d.clone(); from.push(*f);
        entries.push(json!({"from": names(&from), "to": names(&to)}));
        meaning.push(Mapping { from, to: to.clone(), repeat: Repeat::Normal, absorbing: vec![] });
        let r = if repeat == Repeat::Normal { Repeat::Disabled } else { repeat.clone() };
        entries.push(json!({"from": ["@a", key_name(f)], "repeat": repeat_json(&r)}));
        repeat_only.push((defs.iter().map(|d| { let mut t = d.clone(); t.push(*f); t }).collect(), r));
      }
      // a repeat-only entry on the alias with nothing mapped: identity chords for every definition
      1 => {
        let r = if repeat == Repeat::Normal { Repeat::Disabled } else { repeat.clone() };
        entries.push(json!({"from": ["@a", key_name(f)], "repeat": repeat_json(&r)}));
        repeat_only.push((defs.iter().map(|d| { let mut t = d.clone(); t.push(*f); t }).collect(), r));
      }
      _ => {
        let mut tj = names(&to); if alias_out { tj.insert(0, json!("@a")); }
        let mut e = json!({"from": ["@a", key_name(f)], "to": tj});
        if repeat != Repeat::Normal { e["repeat"] = repeat_json(&repeat); }
        entries.push(e);
        for d in &defs {
          let mut from = d.clone(); from.push(*f);
          let mut t = if alias_out { d.clone() } else { vec![] }; t.extend(to.iter().cloned());
          meaning.push(Mapping { from, to: t, repeat: repeat.clone(), absorbing: vec![] });
        }
      }
    }
    if rng.chance(1, 4) { let k = rng.pick(oact); if !used.contains(&k) { entries.push(json!({"from": key_name(f), "to": key_name(&k)})); meaning.push(Mapping { from: vec![*f], to: vec![k], repeat: Repeat::Normal, absorbing: vec![] }); } }
  }
  // repeat-only entries take effect after everything else: same trigger set => set the repeat, none => identity mapping at the end
  let same_set = |a: &Vec<KeyCode>, b: &Vec<KeyCode>| -> bool { a.last() == b.last() && a.len() == b.len() && a.iter().all(|k| b.contains(k)) };
  for (triggers, r) in &repeat_only {
    for t in triggers {
      let mut hit = false;
      for m in meaning.iter_mut() { if same_set(&m.from, t) { m.repeat = r.clone(); hit = true; } }
      if !hit { meaning.push(Mapping { from: t.clone(), to: t.clone(), repeat: r.clone(), absorbing: vec![] }); }
    }
  }
  if meaning.is_empty() { return None; }
  // no key twice in a trigger or an output (the loader rejects that)
  for m in &meaning { for (i, k) in m.from.iter().enumerate() { if m.from[..i].contains(k) { return None; } } for (i, k) in m.to.iter().enumerate() { if m.to[..i].contains(k) { return None; } } }
  let text = serde_json::to_string(&json!({"mappings": entries})).ok()?;
  Some((Layout { mappings: meaning }, text))
}

/// The same layout as a user might write it in a file: the repeat mode of some triggers is given by
/// a separate repeat-only entry ({"from": .., "repeat": ..}: "sets the repeat mode of the mappings
/// with the same trigger set, or adds an identity mapping if there is none"), with the modifiers of
/// the trigger in another order. None if the layout offers no opportunity. The text means exactly
/// `l`; what the tree under test makes of it is its own business (the oracles judge against `l`).
pub fn write_with_repeat_only(rng: &mut Rng, l: &Layout) -> Option<String> {
  let v = layout_json(l);
  let arr = v.get("mappings")?.as_array()?.clone();
  if arr.len() != l.mappings.len() || arr.is_empty() { return None; }
  let key_of = |m: &Mapping| -> Vec<KeyCode> { let mut p: Vec<KeyCode> = m.from[..m.from.len().saturating_sub(1)].to_vec(); p.sort(); if let Some(k) = m.from.last() { p.push(*k); } p };
  let mut out: Vec<serde_json::Value> = vec![];
  let mut extra: Vec<serde_json::Value> = vec![];
  let mut done: Vec<Vec<KeyCode>> = vec![];
  let mut changed = false;
  let n = l.mappings.len();
  // a trailing identity mapping with a trigger set of its own is what a lone repeat-only entry adds
  let last = &l.mappings[n - 1];
  let last_alone = !last.from.is_empty() && last.from == last.to && last.absorbing.is_empty() && l.mappings[..n - 1].iter().all(|m| key_of(m) != key_of(last));
  let drop_last = last_alone && rng.chance(1, 2);
  let mut strip: Vec<bool> = vec![false; n];
  for (i, m) in l.mappings.iter().enumerate() {
    if m.from.is_empty() { return None; }
    let k = key_of(m);
    if done.contains(&k) { continue; }
    done.push(k.clone());
    let group: Vec<usize> = (0..n).filter(|j| key_of(&l.mappings[*j]) == k).collect();
    let same = group.iter().all(|j| l.mappings[*j].repeat == m.repeat);
    if i == n - 1 && drop_last { continue; }
    if same && m.repeat != Repeat::Normal && rng.chance(1, 2) {
      for j in &group { strip[*j] = true; }
      let mut from = m.from.clone();
      // modifiers of the trigger in another order: the same trigger set
      if from.len() > 2 && rng.chance(1, 2) { let a = rng.below(from.len() - 1); let b = rng.below(from.len() - 1); from.swap(a, b); }
      extra.push(serde_json::json!({"from": from.iter().map(key_name).collect::<Vec<_>>(), "repeat": arr[i].get("repeat").cloned().unwrap_or(serde_json::json!("Normal"))}));
      changed = true;
    }
  }
  for (i, a) in arr.iter().enumerate() {
    if i == n - 1 && drop_last {
      extra.push(serde_json::json!({"from": last.from.iter().map(key_name).collect::<Vec<_>>(), "repeat": a.get("repeat").cloned().unwrap_or(serde_json::json!("Normal"))}));
      changed = true;
      continue;
    }
    let mut o = a.clone();
    if strip[i] { if let Some(obj) = o.as_object_mut() { obj.remove("repeat"); } }
    out.push(o);
  }
  if !changed { return None; }
  // repeat-only entries take effect after everything else is converted, wherever they stand; the
  // identity mapping a lone one adds comes last, so that one stays at the end
  for e in extra.into_iter() { if drop_last || rng.chance(1, 2) { out.push(e); } else { let at = rng.below(out.len() + 1); out.insert(at, e); } }
  Some(serde_json::json!({"mappings": out}).to_string())
}

#[derive(Clone, Debug)]
pub struct HistOpts {
  pub len: usize,
  pub max_held: usize,
  /// per-mille rates of channel faults (0 = kind disabled in this run)
  pub p_dup: u64,
  pub p_spurious: u64,
  pub p_drop: u64,
  pub resets: bool,
  /// never press distinguished output keys physically
  pub nodist: bool,
  pub intents: usize,
  pub bias: bool,
  pub end_at_rest: bool,
  /// a crowd: dozens of keys held at once (n-key rollover; a forearm on the keyboard); the key
  /// universe is widened by that many extra keys
  pub crowd: bool,
  /// reset blocks placed after exactly this many delivered events (counted from the start or from
  /// the previous reset block), instead of at random places: a counter that wraps, a clean-up that
  /// runs every N-th event, a table that fills up shows only at round counts
  pub reset_at: Vec<usize>,
}

#[derive(Default, Clone, Debug)]
pub struct GenStats { pub renamed: u64, pub dup: u64, pub spurious: u64, pub drop: u64, pub resets: u64, pub unseen: u64, pub intent_steps: u64, pub biased: u64, pub wide: u64 }

struct Intent { mapping: usize, next: usize, releasing: bool }

pub fn gen_ops(rng: &mut Rng, l: &Layout, o: &HistOpts, st: &mut GenStats) -> Vec<Op> {
  let mut universe = layout_keys(l);
  if o.nodist { universe.retain(|k| !DIST.contains(k)); }
  let trig = trigger_keys(l);
  for k in FOREIGN { if !universe.contains(k) { universe.push(*k); } }
  if o.crowd {
    let all = crate::common::all_known_keys();
    let mut guard = 0;
    while universe.len() < o.max_held + 12 && guard < 2000 { guard += 1; let k = rng.pick(&all); if !universe.contains(&k) && !(o.nodist && DIST.contains(&k)) { universe.push(k); } }
  }
  let press_pct = if o.crowd { 80 } else { 56 };
  let mut truth: Vec<KeyCode> = vec![];     // keys truly held by the fingers
  let mut dphys: Vec<KeyCode> = vec![];     // fold of delivered events
  let mut r = Ref::default();
  let mut last_fired: Option<usize> = None;
  let mut ops: Vec<Op> = vec![];
  let mut intents: Vec<Intent> = vec![];
  let n_int = if l.mappings.is_empty() { 0 } else { o.intents };
  let mut guard = 0;
  let mut since_reset = 0usize;
  while ops.len() < o.len && guard < o.len * 20 {
    guard += 1;
    // keep intents alive
    while intents.len() < n_int && rng.chance(1, 2) {
      // prefer mappings with >1 trigger key, or sharing keys with the last fired one
      let mut mi = rng.below(l.mappings.len());
      if rng.chance(1, 2) { for _ in 0..3 { if l.mappings[mi].from.len() > 1 { break; } mi = rng.below(l.mappings.len()); } }
      intents.push(Intent { mapping: mi, next: 0, releasing: false });
    }
    let roll = rng.below(1000) as u64;
    let mut deliver: Option<Event> = None;
    let mut truth_ev: Option<Event> = None;
    if roll < o.p_dup && !dphys.is_empty() {
      // duplicate: a press of a key already delivered as held is delivered again
      let k = if o.bias && !r.in_effect.is_empty() && rng.chance(1, 2) { let m = &l.mappings[rng.pick(&r.in_effect)]; let k = rng.pick(&m.from); if dphys.contains(&k) { k } else { rng.pick(&dphys) } } else { rng.pick(&dphys) };
      deliver = Some(Pressed(k)); st.dup += 1;
    } else if roll < o.p_dup + o.p_spurious {
      // spurious release: a key that was never (delivered as) pressed
      let k = if o.bias && rng.chance(1, 2) && !trig.is_empty() { rng.pick(&trig) } else { rng.pick(&universe) };
      if !dphys.contains(&k) { deliver = Some(Released(k)); st.spurious += 1; }
    } else {
      // a real physical action: from an intent, from the state-aware bias, or free
      let mut chosen: Option<Event> = None;
      if !intents.is_empty() && rng.chance(3, 5) {
        let ii = rng.below(intents.len());
        let it = &mut intents[ii];
        let m = &l.mappings[it.mapping];
        if !it.releasing {
          // press the next trigger key not yet held
          while it.next < m.from.len() && truth.contains(&m.from[it.next]) { it.next += 1; }
          if it.next < m.from.len() {
            if truth.len() < o.max_held && !(o.nodist && DIST.contains(&m.from[it.next])) { chosen = Some(Pressed(m.from[it.next])); it.next += 1; }
            else { it.releasing = true; }
          } else { it.releasing = true; }
        }
        if chosen.is_none() && it.releasing {
          let held: Vec<KeyCode> = m.from.iter().filter(|k| truth.contains(k)).cloned().collect();
          if held.is_empty() { intents.remove(ii); }
          else {
            // release order: usually final key first, sometimes a modifier first (the hazard C05/C01 name)
            let k = if rng.chance(1, 2) { *held.last().unwrap() } else { rng.pick(&held) };
            chosen = Some(Released(k));
            if rng.chance(1, 3) { intents[ii].releasing = false; intents[ii].next = 0; } // re-press later (re-trigger)
          }
        }
        if chosen.is_some() { st.intent_steps += 1; }
      }
      if chosen.is_none() && o.bias && rng.chance(1, 3) {
        if let Some(i) = last_fired {
          let m = &l.mappings[i];
          match rng.below(4) {
            0 => { // release a non-final trigger key of the fired mapping
              let c: Vec<KeyCode> = m.from[..m.from.len() - 1].iter().filter(|k| truth.contains(k)).cloned().collect();
              if !c.is_empty() { chosen = Some(Released(rng.pick(&c))); }
            }
            1 => { // press the final key of another mapping that shares a trigger or output key
              let c: Vec<KeyCode> = l.mappings.iter().enumerate().filter(|(j, mm)| *j != i && (mm.from.iter().any(|k| m.from.contains(k) || m.to.contains(k)) || mm.to.iter().any(|k| m.to.contains(k) || m.from.contains(k))))
                .map(|(_, mm)| *mm.from.last().unwrap()).filter(|k| !truth.contains(k) && !(o.nodist && DIST.contains(k))).collect();
              if !c.is_empty() && truth.len() < o.max_held { chosen = Some(Pressed(rng.pick(&c))); }
            }
            2 => { // tap the final key again (re-press with the same keys held)
              let fk = *m.from.last().unwrap();
              chosen = Some(if truth.contains(&fk) { Released(fk) } else if truth.len() < o.max_held { Pressed(fk) } else { Released(fk) });
              if let Some(Released(k)) = &chosen { if !truth.contains(k) { chosen = None; } }
            }
            _ => { // press some other key while the mapping is in effect
              let k = rng.pick(&universe);
              if !truth.contains(&k) && truth.len() < o.max_held { chosen = Some(Pressed(k)); }
            }
          }
          if chosen.is_some() { st.biased += 1; }
        }
      }
      if chosen.is_none() {
        let r2 = rng.below(100);
        if (r2 < press_pct || truth.is_empty()) && truth.len() < o.max_held {
          let k = if !trig.is_empty() && !o.crowd && rng.chance(3, 4) { rng.pick(&trig) } else { rng.pick(&universe) };
          if !truth.contains(&k) && !(o.nodist && DIST.contains(&k)) { chosen = Some(Pressed(k)); }
        } else if !truth.is_empty() {
          chosen = Some(Released(rng.pick(&truth)));
        }
      }
      if let Some(e) = chosen {
        truth_ev = Some(e.clone());
        // drop: the channel loses the event (later events become ill-formed for the mapper)
        if o.p_drop > 0 && (rng.below(1000) as u64) < o.p_drop { st.drop += 1; } else { deliver = Some(e); }
      }
    }
    if let Some(e) = truth_ev { match e { Pressed(k) => uniq_push(&mut truth, k), Released(k) => truth.retain(|x| *x != k) } }
    let delivered_now = deliver.is_some();
    if delivered_now { since_reset += 1; }
    if let Some(e) = deliver {
      match &e { Pressed(k) => uniq_push(&mut dphys, *k), Released(k) => dphys.retain(|x| x != k) }
      if let RefOutcome::Fired(i) = r.step(l, &e) { last_fired = Some(i); }
      ops.push(Op::Ev(e));
    }
    // reset block: release_all, unseen activity, release_all — what the loop does around tablet mode
    let counted_reset = delivered_now && o.reset_at.contains(&since_reset);
    if counted_reset || (o.resets && o.reset_at.is_empty() && rng.chance(1, 25)) {
      since_reset = 0;
      ops.push(Op::Reset); st.resets += 1; r.reset();
      for _ in 0..rng.below(4) {
        let k = rng.pick(&universe);
        if o.nodist && DIST.contains(&k) { continue; }
        let e = if truth.contains(&k) { Released(k) } else if truth.len() < o.max_held { Pressed(k) } else { continue };
        match &e { Pressed(k) => uniq_push(&mut truth, *k), Released(k) => truth.retain(|x| x != k) }
        ops.push(Op::Unseen(e)); st.unseen += 1;
      }
      if rng.chance(3, 4) { ops.push(Op::Reset); st.resets += 1; }
      last_fired = None;
    }
  }
  if o.end_at_rest {
    // let go of everything (delivered reliably)
    let mut rest: Vec<KeyCode> = truth.clone();
    for k in &dphys { uniq_push(&mut rest, *k); }
    while !rest.is_empty() { let i = rng.below(rest.len()); let k = rest.remove(i); ops.push(Op::Ev(Released(k))); }
  }
  ops
}

/// Swarm-style per-run configuration.
pub fn swarm_hist(rng: &mut Rng, thorough: bool, faults: bool, resets: bool, nodist: bool) -> HistOpts {
  // one history in 200 is a marathon: what only shows after hundreds of events (a counter, a
  // capacity, a clean-up that runs every N-th time) is out of reach of short histories
  let marathon = rng.chance(1, 200);
  // one history in 400 is a crowd: 33-44 keys held at once
  let crowd = rng.chance(1, 400);
  let len = if crowd { rng.range(150, 400) } else if marathon { if thorough { rng.range(300, 3000) } else { rng.range(300, 1200) } } else if thorough { rng.range(4, 120) } else { rng.range(4, 40) };
  let max_held = if crowd { rng.range(33, 44) } else if thorough { rng.range(1, 6) } else { rng.range(1, 4) };
  // half of the marathons with resets have them at round event counts only
  let reset_at: Vec<usize> = if marathon && !crowd && resets && rng.chance(1, 2) {
    let c = [64usize, 100, 127, 128, 129, 255, 256, 257, 511, 512, 513, 1000, 1023, 1024, 1025, 2048];
    let mut v = vec![]; for _ in 0..rng.range(1, 3) { let x = rng.pick(&c); if x < len && !v.contains(&x) { v.push(x); } } v
  } else { vec![] };
  let faulty = faults && rng.chance(1, 2);
  let rate = |rng: &mut Rng| if faulty && rng.chance(1, 2) { rng.range(10, 100) as u64 } else { 0 };
  HistOpts {
    len, max_held,
    p_dup: rate(rng), p_spurious: rate(rng), p_drop: rate(rng),
    resets: resets && rng.chance(1, 2),
    nodist,
    intents: rng.below(4),
    bias: rng.chance(2, 3),
    end_at_rest: rng.chance(1, 2),
    crowd,
    reset_at,
  }
}
