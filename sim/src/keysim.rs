// World A — "keysim": keyboard (key actors + faulty delivery channel) -> real Mapper -> virtual
// keyboard (a fold). Oracles for C01–C09 and C19 are evaluated after every delivered event.

use crate::keys::*;
use crate::key_transforms::{Mapper, ResultingRepeat};
use crate::common::*;
use crate::refmodel::{Ref, RefOutcome, key_producing};
use crate::engine::Violation;
use crate::gen::DIST;
use crate::rng::H;
use serde_json::{json, Value};

#[derive(Clone, Debug)]
pub struct CaseA {
  pub layout: Layout,
  pub layout_name: String,
  /// the layout has distinguishable outputs (mapping i's output ends in DIST[i], never pressed
  /// physically), so "which mapping fired" may be read off the output stream
  pub dist: bool,
  pub ops: Vec<Op>,
  /// the layout as written in a file, when that is not the plain list of mappings (repeat-only
  /// entries): the tree under test loads this text, the oracles judge against `layout`, which is
  /// what the text means
  pub written: Option<String>,
}

impl CaseA {
  /// the layout the tree under test runs with
  pub fn sut_layout(&self) -> Result<Layout, String> {
    match &self.written { None => Ok(self.layout.clone()), Some(t) => load_text(t) }
  }
  pub fn json(&self) -> Value {
    json!({"world": "A", "layout_name": self.layout_name, "dist": self.dist, "layout": layout_json(&self.layout), "written": self.written, "ops": self.ops.iter().map(op_str).collect::<Vec<_>>()})
  }
  pub fn from_json(v: &Value) -> Result<CaseA, String> {
    let layout = layout_from_json(v.get("layout").ok_or("case: no layout")?)?;
    let mut ops = vec![];
    for o in v.get("ops").and_then(|o| o.as_array()).ok_or("case: no ops")? { ops.push(op_from(o.as_str().ok_or("case: op not a string")?)?); }
    Ok(CaseA { layout, layout_name: v.get("layout_name").and_then(|x| x.as_str()).unwrap_or("").to_string(), dist: v.get("dist").and_then(|x| x.as_bool()).unwrap_or(false), ops, written: v.get("written").and_then(|x| x.as_str()).map(|s| s.to_string()) })
  }
  pub fn hash(&self) -> u64 { let mut h = H::new(); hash_layout(&mut h, &self.layout); hash_ops(&mut h, &self.ops); if let Some(w) = &self.written { h.s(w); } h.fin() }
}

/// Which oracle families are evaluated in a run (one property's check enables only its own).
#[derive(Clone, Copy, Default, Debug)]
pub struct En {
  pub c01: bool, pub c02: bool, pub c03: bool, pub c04: bool, pub c05: bool, pub c06: bool,
  pub c07: bool, pub c08: bool, pub c09: bool, pub c19: bool,
}
impl En {
  pub fn only(p: &str) -> En {
    let mut e = En::default();
    match p { "C01" => e.c01 = true, "C02" => e.c02 = true, "C03" => e.c03 = true, "C04" => e.c04 = true, "C05" => e.c05 = true,
      "C06" => e.c06 = true, "C07" => e.c07 = true, "C08" => e.c08 = true, "C09" => e.c09 = true, "C19" => e.c19 = true, _ => {} }
    e
  }
}

/// What a run observed besides violations: premise probes per property, reach measures.
#[derive(Default, Clone, Debug)]
pub struct Obs {
  pub steps: u64,
  pub fired: u64,
  pub ignored: u64,
  pub resets: u64,
  pub nt_c01: bool, pub nt_c02: bool, pub nt_c03: bool, pub nt_c04: bool, pub nt_c05: bool, pub nt_c06: bool,
  pub nt_c07: bool, pub nt_c08: bool, pub nt_c09: bool, pub nt_c19: bool,
  pub p_absorb_fired: u64, pub p_special_fired: u64, pub p_norepeat_fired: u64, pub p_swallowed: u64,
  pub p_handover: u64, pub p_epoch_repress: u64, pub p_epoch_closed_by_repress: u64, pub p_c08d_checked: u64,
  pub p_twin_steps: u64, pub p_multi_in_effect: u64, pub p_stale_mod_case: u64, pub p_c05c_protected: u64,
  pub p_rest_returns: u64,
  pub written_forms: u64, pub written_differs: u64, pub written_rejected: u64,
  pub state_hashes: Vec<u64>,
  pub digest: u64,
  pub collect_states: bool,
}

#[derive(Debug, Clone)]
struct Epoch { m: KeyCode, t: KeyCode, idx: usize, held: Vec<KeyCode>, other_press: bool, other_event: bool }

fn seen_down_during(out_before: &[KeyCode], evs: &[Event], k: &KeyCode) -> bool {
  let mut cur = out_before.to_vec();
  if cur.contains(k) { return true; }
  for e in evs { fold1(&mut cur, e); if cur.contains(k) { return true; } }
  false
}

pub fn nontrivial(p: &str, o: &Obs) -> bool {
  match p { "C01" => o.nt_c01, "C02" => o.nt_c02, "C03" => o.nt_c03, "C04" => o.nt_c04, "C05" => o.nt_c05, "C06" => o.nt_c06,
    "C07" => o.nt_c07, "C08" => o.nt_c08, "C09" => o.nt_c09, "C19" => o.nt_c19, _ => o.fired > 0 }
}

/// What answers a delivered key event: the real mapper (world A), or the outputs the real loop
/// wrote for that event when the whole path reader -> loop -> writer was run (world E).
pub trait Stepper {
  fn step(&mut self, e: &Event) -> crate::key_transforms::StepResult;
  fn release_all(&mut self) -> Vec<Event>;
  /// events written to the virtual keyboard after this step's own output and before the next key
  /// event is read, by something other than the mapper (world E: timer chords). They only move the
  /// folded output state; no oracle is evaluated on them (C11 owns them).
  fn after_step(&mut self) -> Vec<Event> { vec![] }
  /// what was written to the virtual keyboard in answer to a key event that arrived while the
  /// keyboard is supposed to be silent (tablet mode); world A: nothing, the mapper never sees it
  fn unseen(&mut self, _e: &Event) -> Vec<Event> { vec![] }
}
impl Stepper for Mapper {
  fn step(&mut self, e: &Event) -> crate::key_transforms::StepResult { Mapper::step(self, e.clone()) }
  fn release_all(&mut self) -> Vec<Event> { Mapper::release_all(self) }
}
/// Outputs recorded per delivered event by an end-to-end run. The repeat request is not visible
/// end to end, so oracles that need it (C06 twin, C09) are not used with this stepper.
/// `steps[i]` / `chords[i]` belong to the i-th op that asks for an answer (delivered event; with
/// `per_op` also every reset and every unseen event, in op order).
pub struct Precomputed { pub steps: Vec<Vec<Event>>, pub chords: Vec<Vec<Event>>, pub i: usize, pub per_op: bool }
impl Precomputed {
  fn next(&mut self) -> Vec<Event> { let v = self.steps.get(self.i).cloned().unwrap_or_default(); self.i += 1; v }
}
impl Stepper for Precomputed {
  fn step(&mut self, _e: &Event) -> crate::key_transforms::StepResult {
    let events = self.next();
    crate::key_transforms::StepResult { events, repeat: ResultingRepeat::Disabled }
  }
  fn release_all(&mut self) -> Vec<Event> { if self.per_op { self.next() } else { vec![] } }
  fn unseen(&mut self, _e: &Event) -> Vec<Event> { if self.per_op { self.next() } else { vec![] } }
  fn after_step(&mut self) -> Vec<Event> { if self.i == 0 { vec![] } else { self.chords.get(self.i - 1).cloned().unwrap_or_default() } }
}

/// Execute a case against the real mapper and evaluate the enabled oracles after every op.
/// Returns the first violation. A panic inside the mapper propagates (callers catch it).
pub fn execute(case: &CaseA, en: &En, obs: &mut Obs) -> Option<Violation> {
  // (a written form the loader refuses is nobody's violation here: the run is not evaluated)
  let sl = match case.sut_layout() { Ok(l) => l, Err(_) => { obs.written_rejected += 1; return None; } };
  let mut mapper = Mapper::for_layout(&sl);
  execute_with(case, en, obs, &mut mapper)
}

pub fn execute_with(case: &CaseA, en: &En, obs: &mut Obs, mapper: &mut dyn Stepper) -> Option<Violation> {
  let l = &case.layout;
  let sut_l = match case.sut_layout() { Ok(x) => x, Err(_) => { obs.written_rejected += 1; return None; } };
  if case.written.is_some() { obs.written_forms += 1; if sut_l.mappings != l.mappings { obs.written_differs += 1; } }
  let has_abs = l.mappings.iter().any(|m| !m.absorbing.is_empty());
  let lk = layout_keys(l);
  let dist = case.dist;
  let mut lh = H::new(); hash_layout(&mut lh, l); let lhash = lh.fin();
  let mut dg = H::new();
  let mut twin: Option<Mapper> = None;
  let mut phys: Vec<KeyCode> = vec![];
  let mut out: Vec<KeyCode> = vec![];
  let mut r = Ref::default();
  let mut norepeat_guard = false;
  let mut norepeat_fired_since: Vec<usize> = vec![];
  let mut epochs: Vec<Epoch> = vec![];
  let mut reabsorbed_keys: Vec<KeyCode> = vec![]; // keys whose epoch was closed by release + re-press (C08d)
  let mut epoch_closed_by_release: Vec<KeyCode> = vec![];
  let mut in_block = false;
  let mut fired_since_rest_with2 = false;
  let mut seg_fired_abs_or_special = false;
  let mut pending_repeat = false;
  let sinks: Vec<KeyCode> = l.mappings.iter().filter(|m| m.from.len() == 1).map(|m| m.from[0])
    .filter(|k| !l.mappings.iter().any(|m| m.to.contains(k))).collect();
  let vio = |label: &str, step: usize, detail: String| Some(Violation::new(label, step, detail));

  for (si, op) in case.ops.iter().enumerate() {
    let ev = match op {
      Op::Unseen(e) => {
        if in_block { match e { Pressed(k) => { if !phys.contains(k) { phys.push(*k); } } Released(k) => { phys.retain(|x| x != k); } } }
        // end to end the silent keyboard may still have been answered; whatever was written moves
        // the output state (what may be written in tablet mode is C12's business, not checked here)
        let written = mapper.unseen(e);
        if !written.is_empty() {
          for x in &written { fold1(&mut out, x); }
          for x in mapper.after_step() { fold1(&mut out, &x); }
        }
        if en.c01 && in_block && phys.is_empty() && !out.is_empty() { return vio("C01", si, format!("all physical keys released (the last one while the keyboard was silenced) but {} still down on the virtual keyboard", keys_str(&out))); }
        continue;
      }
      Op::Reset => {
        in_block = true;
        obs.resets += 1;
        let evs = mapper.release_all();
        for e in &evs { hash_ev(&mut dg, e); } dg.u(0x77);
        let mut red = None;
        fold(&mut out, &evs, &mut red);
        if en.c19 { if let Some(d) = red { return vio("C19-reset", si, format!("release-all batch {}: {}", evs_str(&evs), d)); } }
        if en.c06 && !out.is_empty() { return vio("C06-reset-held", si, format!("held on the virtual keyboard after release-all: {}", keys_str(&out))); }
        if en.c01 && phys.is_empty() && !out.is_empty() { return vio("C01", si, format!("nothing held physically but {} still down after release-all", keys_str(&out))); }
        r.reset();
        if en.c06 { twin = Some(Mapper::for_layout(&sut_l)); if seg_fired_abs_or_special { obs.nt_c06 = true; } }
        seg_fired_abs_or_special = false;
        norepeat_guard = false;
        epochs.clear();
        pending_repeat = false;
        continue;
      }
      Op::Ev(e) => { in_block = false; e }
    };
    obs.steps += 1;
    let out_before = out.clone();
    let phys_before = phys.clone();
    let in_effect_before = r.in_effect.clone();
    let absorbed_before_empty = r.absorbed.is_empty();
    match ev { Pressed(k) => { if !phys.contains(k) { phys.push(*k); } } Released(k) => { phys.retain(|x| x != k); } }
    let res = mapper.step(ev);
    let ro = r.step(l, ev);
    for e in &res.events { hash_ev(&mut dg, e); }
    dg.u(match &res.repeat { ResultingRepeat::Disabled => 1, ResultingRepeat::NoChange => 2, ResultingRepeat::Repeating { .. } => 3 });
    let mut red = None;
    fold(&mut out, &res.events, &mut red);
    if obs.collect_states {
      let mut h = H::new(); h.u(lhash);
      for k in sorted(&r.counted) { h.u(k as u64); } h.u(0xF1);
      for i in &r.in_effect { h.u(*i as u64); } h.u(0xF2);
      for k in sorted(&r.absorbed) { h.u(k as u64); } h.u(0xF3);
      h.u(r.abs_trigger.map(|k| k as u64).unwrap_or(0));
      for k in sorted(&out) { h.u(k as u64); }
      obs.state_hashes.push(h.fin());
    }
    // ---- probes
    match &ro {
      RefOutcome::Fired(i) => {
        obs.fired += 1;
        let m = &l.mappings[*i];
        if phys.len() >= 2 { fired_since_rest_with2 = true; }
        if !m.absorbing.is_empty() { obs.p_absorb_fired += 1; seg_fired_abs_or_special = true; }
        match m.repeat { Repeat::Special { .. } => { obs.p_special_fired += 1; seg_fired_abs_or_special = true; if !in_effect_before.is_empty() { obs.nt_c09 = true; } } Repeat::Disabled => { obs.p_norepeat_fired += 1; } _ => {} }
        if m.repeat != Repeat::Normal && !out_before.is_empty() { obs.nt_c07 = true; }
        if let Pressed(k) = ev {
          if phys.len() >= 2 && l.mappings.iter().filter(|mm| mm.from.last() == Some(k)).count() >= 2 { obs.nt_c03 = true; }
        }
        if key_producing(m) && in_effect_before.iter().any(|j| { let mm = &l.mappings[*j]; key_producing(mm) && mm.to.len() > 1 && mm.to.iter().any(is_mod) }) { obs.nt_c04 = true; obs.p_stale_mod_case += 1; }
        if !in_effect_before.is_empty() || phys_before.iter().any(|k| !lk.contains(k)) { obs.nt_c05 = true; }
      }
      RefOutcome::Ignored => { obs.ignored += 1; if pending_repeat { obs.nt_c09 = true; } }
      RefOutcome::Swallowed => { obs.p_swallowed += 1; }
      _ => {}
    }
    match &res.repeat { ResultingRepeat::Repeating { .. } => pending_repeat = true, ResultingRepeat::Disabled => pending_repeat = false, ResultingRepeat::NoChange => {} }
    if !r.in_effect.is_empty() && phys.len() > r.in_effect.iter().map(|i| l.mappings[*i].from.len()).min().unwrap_or(0) { obs.nt_c02 = true; }
    if r.in_effect.len() >= 2 { obs.p_multi_in_effect += 1; if res.events.len() >= 3 { obs.nt_c19 = true; } }
    if phys.is_empty() && !phys_before.is_empty() { obs.p_rest_returns += 1; if fired_since_rest_with2 { obs.nt_c01 = true; } fired_since_rest_with2 = false; }

    // ---- C19: no redundant events (no R)
    if en.c19 { if let Some(d) = red { return vio("C19", si, format!("step {} emitted {}: {}", ev_str(ev), evs_str(&res.events), d)); } }

    // ---- C01: rest on input => rest on output (no R)
    if en.c01 && phys.is_empty() && !out.is_empty() { return vio("C01", si, format!("all physical keys released but {} still down on the virtual keyboard", keys_str(&out))); }

    // ---- C02
    if en.c02 {
      // (a) every held output key is physically held or an output of a mapping whose trigger keys are all held
      for k in &out {
        let ok = phys.contains(k) || l.mappings.iter().any(|m| m.to.contains(k) && m.from.iter().all(|t| phys.contains(t)));
        if !ok { return vio("C02a", si, format!("{} is down on the virtual keyboard with physical {} and no satisfied mapping outputs it", key_name(k), keys_str(&phys))); }
      }
      // (b) a key with a single-key mapping that no mapping outputs never appears
      for k in &out { if sinks.contains(k) { return vio("C02b", si, format!("{} has a single-key mapping and is output by no mapping, yet it is down on the virtual keyboard", key_name(k))); } }
      for e in &res.events { if let Pressed(k) = e { if sinks.contains(k) { return vio("C02b", si, format!("{} has a single-key mapping and is output by no mapping, yet it was pressed on the virtual keyboard", key_name(k))); } } }
      // (c) a physical release never causes a virtual press
      if let Released(_) = ev { if res.events.iter().any(|e| matches!(e, Pressed(_))) { return vio("C02c", si, format!("release {} caused a press: {}", ev_str(ev), evs_str(&res.events))); } }
      // (d) trigger keys of mappings in effect are consumed
      for i in &r.in_effect { for t in &l.mappings[*i].from {
        if out.contains(t) && !r.in_effect.iter().any(|j| l.mappings[*j].to.contains(t)) {
          return vio("C02d", si, format!("trigger key {} of in-effect mapping #{} is down on the virtual keyboard and no mapping in effect outputs it", key_name(t), i));
        }
      } }
    }

    // ---- C07
    if en.c07 {
      if let RefOutcome::Fired(i) = &ro {
        let m = &l.mappings[*i];
        if m.repeat != Repeat::Normal {
          if let Some(k) = out.iter().find(|k| !is_mod(k)) { return vio("C07-held", si, format!("non-modifier {} still down after no-repeat mapping #{} fired: {}", key_name(k), i, evs_str(&res.events))); }
          for k in &m.to {
            if !is_mod(k) { if !res.events.contains(&Pressed(*k)) { return vio("C07-nopress", si, format!("output {} of no-repeat mapping #{} was not pressed: {}", key_name(k), i, evs_str(&res.events))); } }
            else if !seen_down_during(&out_before, &res.events, k) { return vio("C07-nomod", si, format!("modifier output {} of mapping #{} was never down during the step: {}", key_name(k), i, evs_str(&res.events))); }
          }
          norepeat_guard = true;
        }
      }
      if let Pressed(_) = ev { if !matches!(&ro, RefOutcome::Fired(i) if l.mappings[*i].repeat != Repeat::Normal) && ro != RefOutcome::Ignored { norepeat_guard = false; } }
      if norepeat_guard { if let Released(_) = ev { if let Some(k) = out.iter().find(|k| !is_mod(k) && !out_before.contains(k)) { return vio("C07-later", si, format!("non-modifier {} became held by a later release step", key_name(k))); } } }
    }

    // ---- C09
    if en.c09 {
      let exp = match &ro {
        RefOutcome::Ignored => ResultingRepeat::NoChange,
        RefOutcome::Fired(i) => match &l.mappings[*i].repeat {
          Repeat::Special { keys, delay_ms, interval_ms } => ResultingRepeat::Repeating { keys: keys.clone(), delay_ms: *delay_ms, interval_ms: *interval_ms },
          _ => ResultingRepeat::Disabled },
        _ => ResultingRepeat::Disabled
      };
      if exp != res.repeat { return vio("C09", si, format!("step {}: expected repeat request {:?}, got {:?}", ev_str(ev), exp, res.repeat)); }
    }

    // ---- C03 (layouts without absorbing)
    if en.c03 && !has_abs {
      match &ro {
        RefOutcome::Fired(i) => {
          let m = &l.mappings[*i];
          // distinguishable outputs: exactly D_i is pressed
          for (j, mm) in l.mappings.iter().enumerate() {
            if let Some(d) = mm.to.last() { if dist && DIST.contains(d) {
              let pressed = res.events.contains(&Pressed(*d));
              if j == *i && !pressed { return vio("C03-wrong", si, format!("mapping #{} should fire on {} but its distinguished key {} was not pressed: {}", i, ev_str(ev), key_name(d), evs_str(&res.events))); }
              if j != *i && pressed { return vio("C03-wrong", si, format!("mapping #{} should fire on {} but #{}'s distinguished key {} was pressed: {}", i, ev_str(ev), j, key_name(d), evs_str(&res.events))); }
            } }
          }
          for k in &m.to {
            if !is_mod(k) && !res.events.contains(&Pressed(*k)) { return vio("C03-nopress", si, format!("#{} output {} not pressed by a press event in this step: {}", i, key_name(k), evs_str(&res.events))); }
            if m.repeat == Repeat::Normal && !out.contains(k) { return vio("C03-notheld", si, format!("#{} (normal repeat) output {} not held at the end of the step: {}", i, key_name(k), evs_str(&res.events))); }
            if is_mod(k) && !seen_down_during(&out_before, &res.events, k) { return vio("C03-nomod", si, format!("#{} modifier output {} never down during the step", i, key_name(k))); }
          }
        }
        RefOutcome::PassThrough => {
          if let Pressed(k) = ev { if res.events.last() != Some(&Pressed(*k)) { return vio("C03-pass", si, format!("no mapping qualifies for {}; expected it passed through as the last event, got {}", ev_str(ev), evs_str(&res.events))); } }
          for mm in &l.mappings { if let Some(d) = mm.to.last() { if dist && DIST.contains(d) && res.events.contains(&Pressed(*d)) { return vio("C03-wrong", si, format!("no mapping qualifies for {} but distinguished key {} was pressed", ev_str(ev), key_name(d))); } } }
        }
        RefOutcome::Swallowed => {
          if !res.events.is_empty() { return vio("C03-swallow", si, format!("a mapping in effect mentions {}; expected nothing, got {}", ev_str(ev), evs_str(&res.events))); }
        }
        _ => {}
      }
    }

    // ---- C04 (all layouts: the statement does not exclude absorbing ones)
    if en.c04 {
      if let RefOutcome::Fired(i) = &ro {
        let m = &l.mappings[*i];
        if key_producing(m) {
          let fk = *m.to.last().unwrap();
          let mut cur = out_before.clone();
          let mut at: Option<Vec<KeyCode>> = None;
          for e in &res.events { if *e == Pressed(fk) { at = Some(cur.clone()); } fold1(&mut cur, e); }
          match at {
            Some(down) => {
              for k in &m.to[..m.to.len() - 1] { if is_mod(k) && !down.contains(k) { return vio("C04-missing", si, format!("modifier {} of #{} not down when {} was pressed: {}", key_name(k), i, key_name(&fk), evs_str(&res.events))); } }
              for k in &down { if is_mod(k) && !m.to.contains(k) {
                let phys_ok = phys.contains(k) && !m.from.contains(k);
                let modremap_ok = r.in_effect.iter().any(|j| { let mm = &l.mappings[*j]; mm.to.contains(k) && mm.to.last().map(|x| is_mod(x)).unwrap_or(false) });
                if !phys_ok && !modremap_ok { return vio("C04-stale", si, format!("stale modifier {} down when {} of #{} was pressed: {}", key_name(k), key_name(&fk), i, evs_str(&res.events))); }
              } }
            }
            None => { return vio("C04-nopress", si, format!("#{} fired but its final output key {} was not pressed: {}", i, key_name(&fk), evs_str(&res.events))); }
          }
        }
      }
    }

    // ---- C05
    if en.c05 {
      // (a) keys that appear nowhere in the layout
      for e in &res.events {
        match e {
          Pressed(x) if !lk.contains(x) => {
            let newly = matches!(ev, Pressed(k) if k == x) && !phys_before.contains(x);
            if !newly { return vio("C05a-press", si, format!("foreign key {} pressed on the virtual keyboard without being physically pressed in this step ({})", key_name(x), ev_str(ev))); }
          }
          Released(x) if !lk.contains(x) => {
            let own_release = matches!(ev, Released(k) if k == x);
            let norep = matches!(&ro, RefOutcome::Fired(i) if l.mappings[*i].repeat != Repeat::Normal);
            if !(own_release || (!is_mod(x) && norep)) { return vio("C05a-lift", si, format!("foreign key {} lifted early by {}: {}", key_name(x), ev_str(ev), evs_str(&res.events))); }
          }
          _ => {}
        }
      }
      if let Pressed(k) = ev { if !lk.contains(k) && !phys_before.contains(k) && !res.events.contains(&Pressed(*k)) { return vio("C05a-nopress", si, format!("foreign key {} physically pressed but not pressed on the virtual keyboard: {}", key_name(k), evs_str(&res.events))); } }
      if let Released(k) = ev { if !lk.contains(k) && out_before.contains(k) && out.contains(k) { return vio("C05a-norelease", si, format!("foreign key {} physically released but still down", key_name(k))); } }
      if l.mappings.is_empty() {
        let exp: Vec<Event> = match ev { Pressed(k) if !phys_before.contains(k) => vec![ev.clone()], Released(k) if phys_before.contains(k) => vec![ev.clone()], _ => vec![] };
        if exp != res.events { return vio("C05a-empty", si, format!("empty layout: expected {} got {}", evs_str(&exp), evs_str(&res.events))); }
      }
      // (b) a release lifts only the key itself and outputs of mappings that have it in their trigger
      if let Released(k) = ev {
        for e in &res.events { if let Released(x) = e {
          let ok1 = x == k || in_effect_before.iter().any(|i| { let m = &l.mappings[*i]; m.from.contains(k) && m.to.contains(x) });
          if !ok1 { return vio("C05b-unrelated", si, format!("release of {} lifted unrelated key {}", key_name(k), key_name(x))); }
          if r.in_effect.iter().any(|i| l.mappings[*i].to.contains(x)) { return vio("C05b-stillused", si, format!("release of {} lifted {} which a mapping remaining in effect outputs", key_name(k), key_name(x))); }
        } }
      }
      // (c) a mapping that stays in effect keeps its exclusive outputs
      if true {
        if matches!(&ro, RefOutcome::Fired(i) if l.mappings[*i].repeat != Repeat::Normal) { norepeat_fired_since = r.in_effect.clone(); }
        for i in &in_effect_before { if r.in_effect.contains(i) {
          let m = &l.mappings[*i];
          let evk = ev_key(ev);
          if m.from.contains(&evk) { continue; }
          let unique = |k: &KeyCode| !l.mappings.iter().enumerate().any(|(j, mm)| j != *i && mm.to.contains(k));
          let modremap = m.to.last().map(|k| is_mod(k)).unwrap_or(false);
          let plain_normal = m.repeat == Repeat::Normal && !m.to.is_empty() && m.to.iter().all(|k| !is_mod(k));
          for k in &m.to {
            if !unique(k) { continue; }
            let protected = (modremap && is_mod(k)) || (plain_normal && !norepeat_fired_since.contains(i));
            if protected { obs.p_c05c_protected += 1; }
            if protected && res.events.contains(&Released(*k)) { return vio("C05c", si, format!("output {} of mapping #{} (still in effect) lifted by unrelated {}: {}", key_name(k), i, ev_str(ev), evs_str(&res.events))); }
          }
        } }
        norepeat_fired_since.retain(|i| r.in_effect.contains(i));
      }
    }

    // ---- C08 (absorbing + distinguishable layouts)
    if en.c08 && dist {
      let observed: Option<usize> = l.mappings.iter().position(|m| m.to.last().map(|d| DIST.contains(d) && res.events.contains(&Pressed(*d))).unwrap_or(false));
      // any delivered event on M closes M's epoch
      let kk = ev_key(ev);
      if epochs.iter().any(|e| e.m == kk) {
        match ev { Released(_) => { if !epoch_closed_by_release.contains(&kk) { epoch_closed_by_release.push(kk); } } Pressed(_) => {} }
        epochs.retain(|e| e.m != kk);
      }
      if let Pressed(k) = ev {
        if epoch_closed_by_release.contains(k) && !phys_before.contains(k) {
          epoch_closed_by_release.retain(|x| x != k);
          if !reabsorbed_keys.contains(k) { reabsorbed_keys.push(*k); }
          obs.p_epoch_closed_by_repress += 1;
        }
        for ep in epochs.iter_mut() {
          if *k != ep.t {
            if let Some(i) = observed { if l.mappings[i].from.contains(&ep.m) { return vio("C08a", si, format!("mapping #{} requiring absorbed {} fired on the press of {}", i, key_name(&ep.m), key_name(k))); } }
            let mut cur = out_before.clone();
            for e in &res.events {
              if let Pressed(x) = e { if !is_mod(x) && cur.contains(&ep.m) {
                let justified = l.mappings.iter().any(|mm| mm.to.contains(&ep.m) && mm.from.iter().all(|t| phys.contains(t)));
                if !justified { return vio("C08b", si, format!("absorbed {} is down when non-modifier {} is pressed: {}", key_name(&ep.m), key_name(x), evs_str(&res.events))); }
              } }
              fold1(&mut cur, e);
            }
            ep.other_press = true;
            obs.nt_c08 = true;
          } else {
            if !ep.other_press && !ep.other_event && sorted(&phys) == sorted(&ep.held) && !phys_before.contains(k) {
              obs.p_epoch_repress += 1;
              if observed != Some(ep.idx) { return vio("C08c", si, format!("re-press of {} with the same keys held fired {:?}, expected mapping #{} again", key_name(k), observed, ep.idx)); }
            }
          }
        }
        // (d) M counts again once released and pressed again: with no absorbed key pending, the
        // general rule decides which mapping fires
        if absorbed_before_empty {
          if let RefOutcome::Fired(i) = &ro {
            let m = &l.mappings[*i];
            if m.from.iter().any(|t| reabsorbed_keys.contains(t)) {
              if let Some(d) = m.to.last() { if DIST.contains(d) {
                obs.p_c08d_checked += 1;
                if observed != Some(*i) { return vio("C08d", si, format!("{} was released and pressed again, so mapping #{} should fire on {}; observed {:?}", keys_str(&reabsorbed_keys), i, ev_str(ev), observed)); }
              } }
            }
          }
        }
      }
      if let Released(k) = ev { for ep in epochs.iter_mut() { if *k != ep.t { ep.other_event = true; } } }
      if let (Pressed(k), Some(i)) = (ev, observed) {
        for mk in &l.mappings[i].absorbing {
          epochs.retain(|e| e.m != *mk);
          epoch_closed_by_release.retain(|x| x != mk);
          epochs.push(Epoch { m: *mk, t: *k, idx: i, held: phys.clone(), other_press: false, other_event: false });
        }
      }
    }

    // ---- C06: rest or reset means fresh (behavioural twin)
    if en.c06 {
      if let Some(t) = twin.as_mut() {
        obs.p_twin_steps += 1;
        let tr = t.step(ev.clone());
        if tr != res { return vio("C06", si, format!("step {}: a fresh mapper answers {} / {:?}, this mapper answered {} / {:?}", ev_str(ev), evs_str(&tr.events), tr.repeat, evs_str(&res.events), res.repeat)); }
      }
      if phys.is_empty() {
        if !out.is_empty() { return vio("C06-rest-held", si, format!("at rest but {} held on the virtual keyboard", keys_str(&out))); }
        twin = Some(Mapper::for_layout(&sut_l));
        if seg_fired_abs_or_special { obs.nt_c06 = true; }
        seg_fired_abs_or_special = false;
      }
    }
    // whatever else was written before the next key event (timer chords, world E) moves the output state
    for e in mapper.after_step() { fold1(&mut out, &e); }
  }
  obs.digest = dg.fin();
  None
}

/// Minimise a failing case: truncate after the violating step, delete ops, delete mappings,
/// delete trigger/output/absorbing/repeat keys of mappings — keeping a change only when the same
/// violation class persists. Bounded number of re-executions.
pub fn minimise(case: &CaseA, en: &En, label: &str, mut is_ok: impl FnMut(&CaseA) -> bool) -> (CaseA, Violation, u64) {
  let mut best = case.clone();
  let mut execs = 0u64;
  let budget = 4000u64;
  let same = |c: &CaseA, execs: &mut u64| -> Option<Violation> {
    *execs += 1;
    let mut o = Obs::default();
    let c2 = c.clone();
    let r = std::panic::catch_unwind(std::panic::AssertUnwindSafe(|| execute(&c2, en, &mut o)));
    match r { Ok(Some(v)) if v.label == label => Some(v), _ => None }
  };
  let mut cur_v = match same(&best, &mut execs) { Some(v) => v, None => return (best, Violation::new(label, 0, "not reproducible during minimisation".into()), execs) };
  loop {
    let mut progress = false;
    if cur_v.step + 1 < best.ops.len() { best.ops.truncate(cur_v.step + 1); progress = true; }
    let mut i = 0;
    while i < best.ops.len() && execs < budget {
      let mut c = best.clone(); c.ops.remove(i);
      if let Some(v) = same(&c, &mut execs) { best = c; cur_v = v; progress = true; } else { i += 1; }
    }
    // the written form first: if the plain list of mappings fails as well, go on without it; if the
    // failure needs the text as written, the layout is left alone (the text would no longer mean it)
    if best.written.is_some() { let mut c = best.clone(); c.written = None; if let Some(v) = same(&c, &mut execs) { best = c; cur_v = v; progress = true; } }
    let mut i = 0;
    while best.written.is_none() && i < best.layout.mappings.len() && execs < budget {
      let mut c = best.clone(); c.layout.mappings.remove(i);
      if is_ok(&c) { if let Some(v) = same(&c, &mut execs) { best = c; cur_v = v; progress = true; continue; } }
      i += 1;
    }
    // shrink inside mappings
    for mi in 0..(if best.written.is_none() { best.layout.mappings.len() } else { 0 }) {
      for field in 0..4 {
        let mut ki = 0;
        loop {
          if execs >= budget { break; }
          let mut c = best.clone();
          let m = &mut c.layout.mappings[mi];
          let removed = match field {
            0 => { if m.from.len() > 1 && ki < m.from.len() - 1 { m.from.remove(ki); true } else { false } }
            1 => { if ki < m.to.len() { m.to.remove(ki); true } else { false } }
            2 => { if ki < m.absorbing.len() { m.absorbing.remove(ki); true } else { false } }
            _ => { match &mut m.repeat { Repeat::Special { keys, .. } => { if ki < keys.len() { keys.remove(ki); true } else { false } } _ => false } }
          };
          if !removed { break; }
          if is_ok(&c) { if let Some(v) = same(&c, &mut execs) { best = c; cur_v = v; progress = true; continue; } }
          ki += 1;
        }
      }
      if execs < budget {
        let mut c = best.clone();
        if c.layout.mappings[mi].repeat != Repeat::Normal { c.layout.mappings[mi].repeat = Repeat::Normal; if let Some(v) = same(&c, &mut execs) { best = c; cur_v = v; progress = true; } }
      }
    }
    if !progress || execs >= budget { break; }
  }
  best.layout_name = format!("{} (minimised)", case.layout_name);
  (best, cur_v, execs)
}
