// World D — "storesim": the layout file between its writer (the user's editor, or
// add_systemd_service streaming to_writer_pretty into a truncated file) and the service's
// worker that loads it later. The simulator writes a real file, applies storage faults, calls
// the real load_layout_from_file, installs every accepted layout in a real Mapper and drives
// it with a world-A history. Oracle (C14): nothing unwinds.

use crate::keys::*;
use crate::key_transforms::Mapper;
use crate::common::*;
use crate::engine::*;
use crate::gen::*;
use crate::rng::{Rng, H};
use serde_json::{json, Value};
use std::panic::{catch_unwind, AssertUnwindSafe};
use std::cell::RefCell;

const KEYS: &[&str] = &["A", "B", "S", "CAPSLOCK", "LEFTSHIFT", "RIGHTSHIFT", "LEFTCTRL", "TAB", "1", "0", "F24", "SPACE", "NOPE", "a", "@shift", "@sym", "@undefined", "", "KBD_LCD_MENU5", "ESC"];
const ROWS: &[&str] = &["A", "Q", "Z", "1", "`", "a", "q", "X", "", "GRAVE"];
const LETTERS: &[&str] = &["aoeu", "AOEU", "=+-", " {}% \\*][|~", "aaaaaaaaaaaaaaaaaaaaaaaaaa", "", " ", "é", "a b", "\"'", "aa", "qwertyuiop[]\\", "1234567890-=", "\u{0}", "\t"];

fn key(rng: &mut Rng) -> Value { json!(rng.pick(KEYS)) }
/// letters of a row mapping: a fixed interesting string, or a random one whose length lies around
/// the physical row lengths (10-13) and that mixes one-, two-, three- and four-byte characters
fn letters(rng: &mut Rng) -> String {
  if rng.chance(1, 2) { return rng.pick(LETTERS).to_string(); }
  let pool: [&str; 18] = ["a", "b", "Z", "=", "+", " ", "{", "\\", "1", "é", "ü", "€", "→", "😀", "ß", "'", "\"", "~"];
  let n = [0, 1, 3, 9, 10, 11, 12, 13, 14, 15, 20, 27][rng.below(12)];
  let mut s = String::new();
  for _ in 0..n { s.push_str(pool[if rng.chance(1, 3) { 9 + rng.below(6) } else { rng.below(18) }]); }
  s
}
fn keys_v(rng: &mut Rng, min: usize) -> Value {
  let n = min + rng.below(3);
  if n == 1 && rng.chance(1, 2) { return key(rng); }
  Value::Array((0..n).map(|_| key(rng)).collect())
}
fn deep(n: usize) -> Value { let mut v = json!("A"); for _ in 0..n { v = json!([v]); } v }
fn junk(rng: &mut Rng) -> Value {
  if rng.chance(1, 12) { return match rng.below(4) { 0 => deep(10), 1 => deep(200), 2 => json!("x".repeat(3000)), _ => json!({"from": {"from": {"from": "A"}}}) }; }
  match rng.below(11) { 0 => Value::Null, 1 => json!(true), 2 => json!(-1), 3 => json!(1e300), 4 => json!(18446744073709551615u64), 5 => json!([]), 6 => json!({}), 7 => json!([[["A"]]]), 8 => json!({"row": 5}), 9 => json!(-9223372036854775808i64), _ => json!("") }
}
fn number(rng: &mut Rng) -> Value {
  match rng.below(12) { 0 => json!(-5), 1 => json!(0), 2 => json!(4294967296u64), 3 => json!(1.5), 4 => json!("180"), 5 => json!(2147483647), 6 => json!(2147483648u64), 7 => json!(-2147483649i64), 8 => json!(9223372036854775807i64), 9 => json!(1e19), _ => json!(180) }
}
fn repeat(rng: &mut Rng, row: bool) -> Value {
  match rng.below(9) {
    0 => json!("Disabled"), 1 => json!("normal"), 2 => json!("NORMAL"), 3 => json!("weird"), 4 => json!("disabled"),
    5 => junk(rng),
    _ => {
      let keys = if row { if rng.chance(1, 2) { json!({"letters": letters(rng)}) } else { json!(["LEFTCTRL", {"letters": letters(rng)}]) } } else { keys_v(rng, 0) };
      let mut o = json!({"keys": keys, "delay_ms": number(rng), "interval_ms": if rng.chance(1, 3) { number(rng) } else { json!(30) }});
      if rng.chance(1, 10) { o.as_object_mut().unwrap().remove("interval_ms"); }
      if rng.chance(1, 10) { o.as_object_mut().unwrap().insert("extra".into(), json!(1)); }
      let name = if rng.chance(1, 6) { "special" } else { "Special" };
      json!({name: o})
    }
  }
}
fn mapping(rng: &mut Rng) -> Value {
  let mut m = serde_json::Map::new();
  let kind = rng.below(10);
  let row = kind >= 6 && kind <= 8;
  if row {
    let r = json!({"row": rng.pick(ROWS)});
    let from = if rng.chance(1, 2) { r } else { let mut v = vec![]; for _ in 0..1 + rng.below(2) { v.push(key(rng)); } if rng.chance(1, 8) { v.insert(0, r.clone()); } else { v.push(r); } Value::Array(v) };
    m.insert("from".into(), from);
    let l = json!({"letters": letters(rng)});
    let to = if rng.chance(1, 2) { l } else { Value::Array(vec![key(rng), l]) };
    m.insert("to".into(), to);
  } else if kind == 9 {
    m.insert("from".into(), keys_v(rng, 1));
    m.insert("repeat".into(), repeat(rng, false));
    return Value::Object(m);
  } else if kind == 5 {
    m.insert("from".into(), keys_v(rng, 1));
    let a = json!(rng.pick(&["@shift", "@sym"]));
    m.insert("to".into(), if rng.chance(1, 4) { Value::Array(vec![key(rng), a]) } else { a });
  } else {
    let minf = if rng.chance(1, 15) { 0 } else { 1 };
    m.insert("from".into(), keys_v(rng, minf));
    m.insert("to".into(), keys_v(rng, 0));
  }
  if rng.chance(1, 3) { m.insert("repeat".into(), repeat(rng, row)); }
  if rng.chance(1, 4) {
    // half of the time the absorbing attribute is built from the trigger's own modifiers and aliases
    // (what the parser requires of it): all of them, some of them, now and then one of them twice or
    // one that is not in the trigger
    let cands: Vec<Value> = match m.get("from") { Some(Value::Array(a)) => a.iter().filter(|x| x.as_str().map(|t| t.starts_with('@') || t.ends_with("SHIFT") || t.ends_with("CTRL") || t.ends_with("ALT") || t.ends_with("META")).unwrap_or(false)).cloned().collect(), _ => vec![] };
    let v = if !cands.is_empty() && rng.chance(1, 2) {
      let mut l: Vec<Value> = cands.iter().filter(|_| rng.chance(3, 4)).cloned().collect();
      if l.is_empty() { l.push(cands[0].clone()); }
      if rng.chance(1, 4) { let d = l[rng.below(l.len())].clone(); if rng.chance(1, 2) { l.push(d); } else { l.insert(0, d); } }
      if rng.chance(1, 10) { l.push(key(rng)); }
      if l.len() == 1 && rng.chance(1, 2) { l.pop().unwrap() } else { Value::Array(l) }
    } else if rng.chance(1, 2) { key(rng) } else { keys_v(rng, 0) };
    m.insert("absorbing".into(), v);
  }
  if rng.chance(1, 12) { let k = rng.pick(&["from", "to", "repeat", "absorbing", "bogus"]); m.insert(k.into(), junk(rng)); }
  if rng.chance(1, 20) { m.remove("to"); }
  Value::Object(m)
}
/// Quantities crossing thresholds: many mappings, many alias definitions multiplied together,
/// long triggers, long letter rows.
fn big_program(rng: &mut Rng) -> Value {
  let mut v: Vec<Value> = vec![];
  match rng.below(6) {
    4 | 5 => { // a fan of modifier combinations for one or two final keys, as alias-heavy layouts have:
      // dozens of mappings ending in the same key whose triggers include one another, in random order
      let groups: [(&str, [&str; 3]); 4] = [("@s", ["LEFTSHIFT", "RIGHTSHIFT", "CAPSLOCK"]), ("@c", ["LEFTCTRL", "RIGHTCTRL", "TAB"]), ("@a", ["LEFTALT", "RIGHTALT", "GRAVE"]), ("@m", ["LEFTMETA", "RIGHTMETA", "BACKSLASH"])];
      let ng = rng.range(2, 4);
      for (name, defs) in &groups[..ng] { for d in &defs[..rng.range(1, 3)] { v.push(json!({"from": d, "to": name})); } }
      let finals = ["X", "Y"];
      let mut combos: Vec<Value> = vec![];
      for f in &finals[..rng.range(1, 2)] {
        for mask in 0u32..(1 << ng) {
          if rng.chance(1, 5) { continue; }
          let mut from: Vec<&str> = vec![];
          for g in 0..ng { if mask & (1 << g) != 0 { from.push(groups[g].0); } }
          from.push(f);
          let out_key: &str = ["A", "B", "C", "D"][rng.below(4)];
          let mut m = json!({"from": from, "to": [out_key]});
          if rng.chance(1, 6) { m["repeat"] = json!("Disabled"); }
          combos.push(m);
        }
      }
      for i in (1..combos.len()).rev() { let j = rng.below(i + 1); combos.swap(i, j); }
      v.extend(combos);
    }
    0 => { // hundreds of plain mappings
      let n = [64, 255, 256, 257, 600][rng.below(5)];
      let pool = ["A", "B", "C", "D", "E", "F", "G", "H", "I", "J", "K", "L", "M", "N", "O", "P", "Q", "R", "S", "T"];
      for i in 0..n {
        let full = vec![pool[i % 20], pool[(i / 20 + 7) % 20], "ESC"];
        let from: Vec<&str> = if i % 3 == 0 { vec![pool[i % 20]] } else if full[0] == full[1] { vec![full[0], "ESC"] } else { full };
        v.push(json!({"from": from, "to": pool[(i * 7) % 20]}));
      }
    }
    1 => { // aliases with many definitions, multiplied in one trigger
      let defs = ["LEFTSHIFT", "RIGHTSHIFT", "CAPSLOCK", "TAB", "LEFTCTRL", "RIGHTCTRL", "LEFTALT", "RIGHTALT"];
      let k = rng.range(2, 8);
      for d in &defs[..k] { v.push(json!({"from": d, "to": "@a"})); }
      for d in &defs[..rng.range(1, k)] { v.push(json!({"from": [d, "A"], "to": "@b"})); }
      for d in &defs[k.saturating_sub(2)..k] { v.push(json!({"from": d, "to": "@c"})); }
      v.push(json!({"from": ["@a", "@b", "@c", "Q"], "to": ["@a", "X"]}));
      v.push(json!({"from": ["@a", {"row": "Q"}], "to": {"letters": "abcdefghij"}, "absorbing": "@a"}));
    }
    2 => { // a very long trigger and a very long output
      let pool = ["A", "B", "C", "D", "E", "F", "G", "H", "I", "J", "K", "L", "M", "N", "O", "P", "Q", "R", "S", "T", "U", "V", "W", "X", "Y", "Z"];
      let n = rng.range(8, 26);
      v.push(json!({"from": pool[..n].to_vec(), "to": pool[26 - n..].to_vec(), "repeat": {"Special": {"keys": pool[..n].to_vec(), "delay_ms": 1, "interval_ms": 1}}}));
    }
    _ => { // rows at and beyond their physical length, every row
      for r in ["`", "1", "Q", "A", "Z"] { let n = rng.range(9, 15); v.push(json!({"from": ["CAPSLOCK", {"row": r}], "to": {"letters": "abcdefghijklmnopqrstuvwxyz"[..n].to_string()}})); }
      v.push(json!({"from": "CAPSLOCK", "to": []}));
    }
  }
  json!({"mappings": v})
}

pub fn layout_program(rng: &mut Rng) -> Value {
  if rng.chance(1, 30) { return junk(rng); }
  if rng.chance(1, 25) { return big_program(rng); }
  let n = rng.below(6);
  let mut v: Vec<Value> = vec![];
  if rng.chance(1, 2) { v.push(json!({"from": "LEFTSHIFT", "to": "@shift"})); v.push(json!({"from": "RIGHTSHIFT", "to": "@shift"})); }
  if rng.chance(1, 3) { v.push(json!({"from": ["CAPSLOCK", "A"], "to": "@sym"})); }
  for _ in 0..n { v.push(mapping(rng)); }
  if rng.chance(1, 6) && !v.is_empty() { let i = rng.below(v.len()); let j = rng.below(v.len()); v.swap(i, j); }
  let mut o = json!({"mappings": v});
  if rng.chance(1, 30) { o.as_object_mut().unwrap().insert("no_repeat_keys".into(), json!([])); }
  if rng.chance(1, 40) { o = json!({"mappings": junk(rng)}); }
  o
}

#[derive(Clone, Debug, PartialEq)]
pub enum PathKind { File, Missing, Directory, Unreadable,
  /// the path is a symbolic link to the file
  Symlink,
  /// ... to a file whose name is not valid UTF-8 (a Latin-1 name on an old disk)
  SymlinkOddTarget,
  /// a link whose (non-UTF-8) target does not exist
  DanglingOdd,
  /// a link that points at itself (ELOOP)
  SymlinkLoop,
  /// the path itself has spaces, braces, a percent sign, a line break and non-ASCII letters
  OddName }

#[derive(Clone, Debug)]
pub struct CaseD { pub bytes: Vec<u8>, pub path: PathKind, pub ops: Vec<Op>, pub origin: String,
  /// storage faults while the file is read (sysseam::arm_file_reads): (mode, parameter); mode 0 = none
  pub read_plan: (u8, u32) }
impl CaseD {
  pub fn json(&self) -> Value {
    let content = match std::str::from_utf8(&self.bytes) { Ok(s) => json!(s), Err(_) => json!({"bytes": self.bytes}) };
    json!({"world": "D", "origin": self.origin, "path": format!("{:?}", self.path), "read_plan": [self.read_plan.0, self.read_plan.1], "file_content": content, "ops": self.ops.iter().map(op_str).collect::<Vec<_>>()})
  }
  pub fn from_json(v: &Value) -> Result<CaseD, String> {
    let fc = v.get("file_content").ok_or("case: no file_content")?;
    let bytes = if let Some(s) = fc.as_str() { s.as_bytes().to_vec() } else { fc.get("bytes").and_then(|b| b.as_array()).ok_or("case: bad file_content")?.iter().map(|x| x.as_u64().unwrap_or(0) as u8).collect() };
    let path = match v.get("path").and_then(|x| x.as_str()).unwrap_or("File") { "Missing" => PathKind::Missing, "Directory" => PathKind::Directory, "Unreadable" => PathKind::Unreadable, "Symlink" => PathKind::Symlink, "SymlinkOddTarget" => PathKind::SymlinkOddTarget, "DanglingOdd" => PathKind::DanglingOdd, "SymlinkLoop" => PathKind::SymlinkLoop, "OddName" => PathKind::OddName, _ => PathKind::File };
    let read_plan = v.get("read_plan").and_then(|x| x.as_array()).map(|a| (a.get(0).and_then(|x| x.as_u64()).unwrap_or(0) as u8, a.get(1).and_then(|x| x.as_u64()).unwrap_or(0) as u32)).unwrap_or((0, 0));
    let mut ops = vec![];
    for o in v.get("ops").and_then(|o| o.as_array()).cloned().unwrap_or_default() { ops.push(op_from(o.as_str().ok_or("case: op not a string")?)?); }
    Ok(CaseD { bytes, path, ops, origin: v.get("origin").and_then(|x| x.as_str()).unwrap_or("").to_string(), read_plan })
  }
  pub fn hash(&self) -> u64 { let mut h = H::new(); for b in &self.bytes { h.u(*b as u64); } h.u(self.path.clone() as u64 + 0x100); if self.read_plan.0 != 0 { h.u(0x4ead); h.u(self.read_plan.0 as u64); h.u(self.read_plan.1 as u64); } hash_ops(&mut h, &self.ops); h.fin() }
}

thread_local! { static DIR: RefCell<Option<String>> = RefCell::new(None); }
static NEXT_DIR: std::sync::atomic::AtomicU64 = std::sync::atomic::AtomicU64::new(0);
fn scratch_base() -> String {
  let base = if std::path::Path::new("/dev/shm").is_dir() { "/dev/shm".to_string() } else { std::env::temp_dir().to_string_lossy().to_string() };
  format!("{}/verif-sim-{}", base, std::process::id())
}
fn scratch_dir() -> String {
  DIR.with(|d| {
    let mut d = d.borrow_mut();
    if d.is_none() {
      let p = format!("{}/w{}", scratch_base(), NEXT_DIR.fetch_add(1, std::sync::atomic::Ordering::Relaxed));
      let _ = std::fs::create_dir_all(format!("{}/adir", p));
      *d = Some(p);
    }
    d.clone().unwrap()
  })
}
/// remove every scratch file of this process (called once before exit)
pub fn cleanup_scratch() { let _ = std::fs::remove_dir_all(scratch_base()); }

#[derive(Default, Clone, Debug)]
pub struct ObsD { pub read_faults_applied: u64, pub accepted: bool, pub rejected_with_message: bool, pub mappings: usize, pub steps: u64, pub empty_message: bool, pub digest: u64 }

/// Outcome of the load+run pipeline. A panic anywhere is the violation.
pub fn execute_d(case: &CaseD, obs: &mut ObsD) -> Option<Violation> {
  let dir = scratch_dir();
  let path = match case.path {
    PathKind::File => { let p = format!("{}/layout.json", dir); if let Err(e) = std::fs::write(&p, &case.bytes) { return Some(Violation::new("C14-harness", 0, format!("cannot write scratch file {}: {}", p, e))); } p }
    PathKind::Missing => format!("{}/does-not-exist.json", dir),
    PathKind::Directory => format!("{}/adir", dir),
    PathKind::Unreadable => { let p = format!("{}/adir/not-a-dir-component/layout.json", dir); p }
    PathKind::Symlink | PathKind::SymlinkOddTarget | PathKind::DanglingOdd | PathKind::SymlinkLoop => {
      use std::os::unix::ffi::OsStrExt;
      let link = format!("{}/link.json", dir);
      let _ = std::fs::remove_file(&link);
      let odd: &[u8] = b"layout-caf\xe9 \xff.json";
      let target_name: Vec<u8> = match case.path { PathKind::Symlink => b"target.json".to_vec(), PathKind::SymlinkLoop => b"link.json".to_vec(), _ => odd.to_vec() };
      let target = std::path::Path::new(&dir).join(std::ffi::OsStr::from_bytes(&target_name));
      if case.path == PathKind::DanglingOdd { let _ = std::fs::remove_file(&target); }
      else if case.path != PathKind::SymlinkLoop { if let Err(e) = std::fs::write(&target, &case.bytes) { return Some(Violation::new("C14-harness", 0, format!("cannot write scratch file: {}", e))); } }
      // a relative link, as `ln -s` makes them
      if let Err(e) = std::os::unix::fs::symlink(std::ffi::OsStr::from_bytes(&target_name), &link) { return Some(Violation::new("C14-harness", 0, format!("cannot make scratch link: {}", e))); }
      link
    }
    PathKind::OddName => { let p = format!("{}/my {{layout}} 100% caf\u{e9}\n\u{1f600}.json", dir); if let Err(e) = std::fs::write(&p, &case.bytes) { return Some(Violation::new("C14-harness", 0, format!("cannot write scratch file: {}", e))); } p }
  };
  let p2 = path.clone();
  if case.read_plan.0 != 0 { crate::sysseam::arm_file_reads(case.read_plan.0, case.read_plan.1); }
  let loaded = catch_unwind(AssertUnwindSafe(|| crate::layout_loading::load_layout_from_file(&p2)));
  obs.read_faults_applied = crate::sysseam::disarm_file_reads();
  let mut d = H::new();
  match loaded {
    Err(e) => Some(Violation::new("C14-load-panic", 0, format!("loading panicked: {}", panic_msg(&e))).with_cause(&panic_msg(&e))),
    Ok(Err(msg)) => { obs.rejected_with_message = true; if msg.trim().is_empty() { obs.empty_message = true; return Some(Violation::new("C14-empty-message", 0, "the file was rejected with an empty error message".into())); } // the message text is not part of the digest: it embeds the scratch path and, for unknown row
      // names, a list in hash-map iteration order (randomised per process)
      d.u(0xE77); obs.digest = d.fin(); None }
    Ok(Ok(layout)) => {
      obs.accepted = true; obs.mappings = layout.mappings.len();
      let ops = case.ops.clone();
      let mut steps = 0u64;
      let mut dg = H::new();
      let r = catch_unwind(AssertUnwindSafe(|| {
        let mut m = Mapper::for_layout(&layout);
        for op in &ops {
          match op {
            Op::Ev(e) => { let r = m.step(e.clone()); for x in &r.events { hash_ev(&mut dg, x); } steps += 1; }
            Op::Reset => { let r = m.release_all(); for x in &r { hash_ev(&mut dg, x); } }
            Op::Unseen(_) => {}
          }
        }
        let r = m.release_all(); for x in &r { hash_ev(&mut dg, x); }
      }));
      obs.steps = steps;
      obs.digest = dg.fin();
      match r {
        Ok(()) => None,
        Err(e) => {
          let msg = panic_msg(&e);
          let stage = if steps == 0 { "installing the accepted layout in the mapper" } else { "driving the mapper" };
          Some(Violation::new("C14-run-panic", steps as usize, format!("the loader accepted the file ({} mappings) but {} panicked: {}", layout.mappings.len(), stage, msg)).with_cause(&msg))
        }
      }
    }
  }
}

pub struct StoreCampaign { pub sweep_truncations: bool, pub quick_runs: u64, pub thorough_runs: u64, pub texts: Vec<(String, String)>, pub offsets: Vec<(usize, usize)> }

impl StoreCampaign {
  pub fn new(sweep_truncations: bool, quick_runs: u64, thorough_runs: u64) -> StoreCampaign {
    let mut texts: Vec<(String, String)> = builtin_layout_texts();
    texts.extend(readme_layout_texts());
    // also the pretty-printed basic form that add_systemd_service saves
    let mut saved = vec![];
    for (n, t) in &texts { if let Ok(l) = load_text(t) { if let Ok(s) = serde_json::to_string_pretty(&l) { saved.push((format!("{}-as-saved", n), s)); } } }
    texts.extend(saved);
    let mut offsets = vec![];
    if sweep_truncations { for (i, (_, t)) in texts.iter().enumerate() { for o in 0..=t.len() { offsets.push((i, o)); } } }
    StoreCampaign { sweep_truncations, quick_runs, thorough_runs, texts, offsets }
  }
  fn history(&self, rng: &mut Rng, bytes: &[u8]) -> Vec<Op> {
    // keys mentioned in the stored text, so the history exercises the layout if it is accepted
    let l = std::str::from_utf8(bytes).ok().and_then(|s| catch_unwind(AssertUnwindSafe(|| load_text(s).ok())).ok().flatten()).unwrap_or(Layout { mappings: vec![] });
    let mut ho = swarm_hist(rng, false, true, true, false);
    ho.len = rng.range(4, 40);
    let mut st = GenStats::default();
    // gen_ops needs well-formed mappings only for its intents; guard against empty triggers
    if l.mappings.iter().any(|m| m.from.is_empty()) { ho.intents = 0; ho.bias = false; }
    gen_ops(rng, &l, &ho, &mut st)
  }
  pub fn generate(&self, seed: u64, idx: u64, faults: &mut [u64; 12]) -> CaseD {
    let mut rng = Rng::new(seed);
    if self.sweep_truncations {
      // exhaustive: every truncation offset of every shipped text (crash during save)
      let (ti, off) = self.offsets[(idx as usize) % self.offsets.len()];
      let bytes = self.texts[ti].1.as_bytes()[..off].to_vec();
      faults[0] += 1;
      let ops = self.history(&mut rng, &bytes);
      return CaseD { bytes, path: PathKind::File, ops, origin: format!("{} truncated at {}", self.texts[ti].0, off), read_plan: (0, 0) };
    }
    let (mut bytes, origin) = match rng.below(10) {
      0..=1 => { let (n, t) = &self.texts[rng.below(self.texts.len())]; (t.as_bytes().to_vec(), n.clone()) }
      2 => { let mut st = GenStats::default(); let _ = &mut st; let o = LayoutOpts { weird: rng.chance(1, 3), related: rng.chance(1, 2), dense: rng.chance(1, 6), absorbing: true, norepeat: true, special: true, max_map: 5, big: false, edge_times: true }; let l = if rng.chance(1, 4) { crate::gen::gen_wide_layout(&mut rng, &o) } else { gen_layout(&mut rng, &o) }; (serde_json::to_vec_pretty(&l).unwrap(), "random basic layout as saved".to_string()) }
      _ => { let v = layout_program(&mut rng); (if rng.chance(1, 2) { serde_json::to_vec(&v).unwrap() } else { serde_json::to_vec_pretty(&v).unwrap() }, "generated program".to_string()) }
    };
    let mut path = PathKind::File;
    match rng.below(20) {
      0 | 1 | 2 => { let n = rng.below(bytes.len() + 1); bytes.truncate(n); faults[0] += 1; }
      3 | 4 => { if !bytes.is_empty() { let i = rng.below(bytes.len()); bytes[i] ^= 1 << rng.below(8); faults[1] += 1; } }
      5 => { if bytes.len() > 4 { let i = rng.below(bytes.len() - 2); let j = i + 1 + rng.below(bytes.len() - i - 1); let chunk: Vec<u8> = bytes[i..j].to_vec(); let at = rng.below(bytes.len()); for (o, b) in chunk.into_iter().enumerate() { bytes.insert(at + o, b); } faults[2] += 1; } }
      6 => { if bytes.len() > 4 { let i = rng.below(bytes.len() - 2); let j = i + 1 + rng.below(bytes.len() - i - 1); bytes.drain(i..j); faults[3] += 1; } }
      7 => { if bytes.len() > 8 { let bs = 1 + rng.below(bytes.len() / 4); let i = rng.below(bytes.len() - 2 * bs + 1); let (a, b) = (bytes[i..i + bs].to_vec(), bytes[i + bs..i + 2 * bs].to_vec()); bytes[i..i + bs].copy_from_slice(&b); bytes[i + bs..i + 2 * bs].copy_from_slice(&a); faults[4] += 1; } }
      8 if rng.chance(1, 4) => {
        // a file that nests far deeper than any layout (recursion in the reader, the parser or the converter)
        let depth = [100usize, 127, 128, 129, 1000, 40_000][rng.below(6)];
        let (open, close) = if rng.chance(1, 2) { ("[", "]") } else { ("{\"a\":", "}") };
        let inner = format!("{}{}{}", open.repeat(depth), if open == "[" { "" } else { "0" }, close.repeat(depth));
        let doc = match rng.below(3) { 0 => inner, 1 => format!("{{\"mappings\": {}}}", inner), _ => format!("{{\"mappings\": [{{\"from\": \"A\", \"to\": {}}}]}}", inner) };
        bytes = doc.into_bytes(); faults[5] += 1;
      }
      8 => { let g: &[u8] = match rng.below(4) { 0 => b"\0\0\0\0", 1 => b"}]garbage", 2 => b"\n\n{\"mappings\": []}", _ => b"\xff\xfe" }; bytes.extend_from_slice(g); faults[5] += 1; }
      12 => { // the editor saved with a byte-order mark / as UTF-16
        if rng.chance(1, 2) { let mut b = vec![0xEFu8, 0xBB, 0xBF]; b.extend_from_slice(&bytes); bytes = b; } else { let mut b = vec![0xFFu8, 0xFE]; for x in &bytes { b.push(*x); b.push(0); } bytes = b; }
        faults[9] += 1;
      }
      13 => { // an object key written twice (later write wins in serde_json::Value)
        if let Ok(text) = std::str::from_utf8(&bytes) { if let Some(i) = text.find("\"from\"") { let ins = if rng.chance(1, 2) { "\"from\": [\"A\", \"A\"], " } else { "\"to\": 7, " }; let mut t = text.to_string(); t.insert_str(i, ins); bytes = t.into_bytes(); faults[2] += 1; } }
      }
      9 => { if rng.chance(1, 2) { bytes.clear(); faults[6] += 1; } else { let n = rng.below(bytes.len() + 1); for b in &mut bytes[n..] { *b = 0; } faults[7] += 1; } }
      10 => { path = match rng.below(3) { 0 => PathKind::Missing, 1 => PathKind::Directory, _ => PathKind::Unreadable }; faults[8] += 1; }
      11 => { if !bytes.is_empty() { let i = rng.below(bytes.len()); bytes[i] = [0x80u8, 0xff, 0xc0, 0xed][rng.below(4)]; faults[9] += 1; } }
      _ => {}
    }
    let ops = self.history(&mut rng, &bytes);
    // how the file is reached and how the disk behaves while it is read: independent of what is stored
    if path == PathKind::File && rng.chance(1, 8) {
      path = match rng.below(6) { 0 | 1 => PathKind::Symlink, 2 => PathKind::SymlinkOddTarget, 3 => PathKind::DanglingOdd, 4 => PathKind::SymlinkLoop, _ => PathKind::OddName };
      faults[10] += 1;
    }
    let read_plan = if rng.chance(1, 6) { faults[11] += 1; match rng.below(4) { 0 => (1u8, [1u32, 2, 3, 5, 7, 64][rng.below(6)]), 1 => (2, rng.below(bytes.len() + 2) as u32), 2 => (3, 1 + rng.below(3) as u32), _ => (4, 1 + rng.below(4) as u32) } } else { (0, 0) };
    CaseD { bytes, path, ops, origin, read_plan }
  }
}

fn run_d(case: &CaseD, obs: &mut ObsD) -> Option<Violation> { execute_d(case, obs) }

pub fn minimise_d(case: &CaseD, label: &str, cause: &str) -> (CaseD, Violation, u64) {
  let mut best = case.clone(); let mut execs = 0u64;
  let same = |c: &CaseD, execs: &mut u64| -> Option<Violation> { *execs += 1; let mut o = ObsD::default(); match run_d(c, &mut o) { Some(v) if v.label == label && v.cause == cause => Some(v), _ => None } };
  let mut cur = match same(&best, &mut execs) { Some(v) => v, None => return (best, Violation::new(label, 0, "not reproducible during minimisation".into()), execs) };
  loop {
    let mut progress = false;
    if cur.step < best.ops.len() { let mut c = best.clone(); c.ops.truncate(cur.step); if let Some(v) = same(&c, &mut execs) { best = c; cur = v; progress = true; } }
    let mut i = best.ops.len();
    while i > 0 && execs < 3000 { i -= 1; let mut c = best.clone(); c.ops.remove(i); if let Some(v) = same(&c, &mut execs) { best = c; cur = v; progress = true; } }
    // structural shrink of the stored JSON when it parses: drop mappings, drop fields
    if let Ok(v) = serde_json::from_slice::<Value>(&best.bytes) {
      if let Some(ms) = v.get("mappings").and_then(|m| m.as_array()) {
        let mut i = ms.len();
        while i > 0 && execs < 3000 {
          i -= 1;
          let cur_v: Value = match serde_json::from_slice(&best.bytes) { Ok(x) => x, Err(_) => break };
          let mut arr = cur_v["mappings"].as_array().cloned().unwrap_or_default();
          if i >= arr.len() { continue; }
          arr.remove(i);
          let mut nv = cur_v.clone(); nv["mappings"] = Value::Array(arr);
          let mut c = best.clone(); c.bytes = serde_json::to_vec(&nv).unwrap();
          if let Some(vv) = same(&c, &mut execs) { best = c; cur = vv; progress = true; }
        }
        let cur_v: Value = serde_json::from_slice(&best.bytes).unwrap_or(Value::Null);
        if let Some(arr) = cur_v.get("mappings").and_then(|m| m.as_array()) {
          for (mi, m) in arr.iter().enumerate() {
            if let Some(o) = m.as_object() {
              for k in o.keys().cloned().collect::<Vec<_>>() {
                if k == "from" || execs >= 3000 { continue; }
                let mut nv: Value = serde_json::from_slice(&best.bytes).unwrap_or(Value::Null);
                if let Some(obj) = nv["mappings"].get_mut(mi).and_then(|x| x.as_object_mut()) { if k == "to" { obj.insert("to".into(), json!([])); } else { obj.remove(&k); } } else { continue; }
                let mut c = best.clone(); c.bytes = serde_json::to_vec(&nv).unwrap();
                if c.bytes != best.bytes { if let Some(vv) = same(&c, &mut execs) { best = c; cur = vv; progress = true; } }
              }
            }
          }
        }
      }
    }
    if !progress || execs >= 3000 { break; }
  }
  (best, cur, execs)
}

impl Campaign for StoreCampaign {
  fn name(&self) -> String { if self.sweep_truncations { "storesim-truncation-sweep".into() } else { "storesim-random".into() } }
  fn world(&self) -> &'static str { "D" }
  fn runs(&self, thorough: bool) -> u64 { if self.sweep_truncations { self.offsets.len() as u64 } else if thorough { self.thorough_runs } else { self.quick_runs } }
  fn declare(&self, acc: &mut Acc) {
    for f in FAULT_NAMES { acc.declare_fault(f); }
    acc.declare_probe("accepted_layouts"); acc.declare_probe("rejected_with_message"); acc.declare_probe("accepted_with_two_or_more_mappings");
  }
  fn run(&self, seed: u64, idx: u64, ctx: &mut Ctx) -> RunResult {
    let mut faults = [0u64; 12];
    let case = self.generate(seed, idx, &mut faults);
    for (i, f) in FAULT_NAMES.iter().enumerate() { ctx.acc.fault(f, faults[i]); }
    let mut obs = ObsD::default();
    let v = run_d(&case, &mut obs);
    if obs.accepted { ctx.acc.probe("accepted_layouts"); if obs.mappings >= 2 { ctx.acc.probe("accepted_with_two_or_more_mappings"); } }
    if obs.rejected_with_message { ctx.acc.probe("rejected_with_message"); }
    ctx.acc.count("steps", obs.steps); ctx.acc.count("file_reads_shortened_failed_or_interrupted", obs.read_faults_applied);
    let faulted = faults.iter().any(|x| *x > 0);
    let nt = (obs.accepted && obs.mappings >= 2) || (obs.rejected_with_message && faulted);
    let sample = if ctx.want_sample { Some(case.json()) } else { None };
    let mut sut_panic = None;
    let failure = v.map(|v| {
      if v.label.contains("panic") { sut_panic = Some(v.detail.clone()); }
      let c2 = case.clone(); let label = v.label.clone(); let cause = v.cause.clone();
      RawFailure { violation: v, case: case.json(), shrink: Box::new(move || { let (m, mv, n) = minimise_d(&c2, &label, &cause); (m.json(), mv, n) }) }
    });
    RunResult { failure, nontrivial: nt, case_hash: case.hash(), state_hashes: vec![], sample, digest: obs.digest, sut_panic: None, harness_error: None, evals: 1 }
  }
  fn replay(&self, case: &Value) -> Result<Option<Violation>, String> { let c = CaseD::from_json(case)?; let mut o = ObsD::default(); Ok(run_d(&c, &mut o)) }
  fn rule(&self) -> String {
    if self.sweep_truncations { format!("exhaustive crash-during-save sweep: every truncation offset ({} files) of the {} shipped texts (five built-in layouts, README examples, and each of them in the pretty-printed basic form add_systemd_service saves), written to a real file and loaded by the real load_layout_from_file; accepted prefixes are installed in a real Mapper and driven by a seeded history with channel faults and release_all; non-trivial = accepted with >=2 mappings, or rejected after a fault", self.offsets.len(), self.texts.len()) }
    else { "stored content = shipped text | random basic layout as saved | generated layout program (valid: single, alias with one or several keys and definitions, row with modifiers, repeat-only, every repeat form, absorbing as string or list; near-valid: wrong JSON types, missing/extra fields, empty arrays, repeated keys, undefined/misplaced aliases, over-long rows, unknown characters and key names, numbers negative/fractional/>i32/>i64); storage fault (in 60% of the runs) = truncation, bit flip, duplicated/dropped/transposed block, trailing garbage, zero-length file, zero-filled tail, missing path/directory/ENOTDIR, non-UTF-8 byte; then real load_layout_from_file; every accepted layout is installed in a real Mapper and driven by a seeded world-A history (channel faults, release_all); distinct by hash of (file bytes, path kind, ops); non-trivial = accepted with >=2 mappings, or rejected after a storage fault".into() }
  }
  fn components(&self) -> Value {
    json!({"real": ["layout_loading::load_layout_from_file (real file I/O on a tmpfs/scratch file)", "serde_json reader", "layout_parsing_formatting::parse_layout_from_json", "fancy_layout_interpreting::convert", "key_transforms::Mapper::for_layout/step/release_all"], "stub": ["the disk (a scratch file the simulator writes, truncates and corrupts)", "the writer of the file (editor / add_systemd_service)", "keyboard + delivery channel"], "not_run": ["main.rs command-line plumbing around the loader"]})
  }
}

pub const FAULT_NAMES: [&str; 12] = ["torn_write_truncation", "bit_flip", "duplicated_block", "dropped_block", "transposed_blocks", "trailing_garbage", "zero_length_file", "zero_filled_tail", "bad_path_missing_dir_or_notdir", "non_utf8_byte", "path_is_symlink_dangling_loop_or_oddly_named", "read_faults_short_counts_eio_eintr"];
