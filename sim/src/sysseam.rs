// System-call seam for read(2).
//
// A pipe can be made to fail a read with EAGAIN (empty) or EBADF (descriptor not open for
// reading), but never with ENODEV — which is what an evdev node answers once the device has been
// unplugged, and what the shipped RealDriver turns into "the device is gone". To reach that code
// the harness defines the C symbol `read` itself: a definition in the executable takes precedence
// over the one in the shared C library, so every read the process makes through libc's `read`
// (nix, std) comes through here. Unless the calling thread has asked for a failure on exactly
// that descriptor the call goes straight to the kernel.
//
// Faults are per thread (a run lives on one worker thread; descriptor numbers are process-wide and
// are reused by other workers as soon as they are closed) and persistent until cleared: the
// descriptor "is dead from here on".

use std::cell::Cell;

const SLOTS: usize = 4;
thread_local! {
  static FAULTS: Cell<[(i32, i32); SLOTS]> = const { Cell::new([(-1, 0); SLOTS]) };
  static HITS: Cell<u64> = const { Cell::new(0) };
}

/// From now on every read(2) this thread makes on `fd` fails with `errno`.
pub fn fail_reads(fd: i32, errno: i32) {
  let _ = FAULTS.try_with(|c| {
    let mut a = c.get();
    for s in a.iter_mut() { if s.0 == fd { s.1 = errno; c.set(a); return; } }
    for s in a.iter_mut() { if s.0 < 0 { *s = (fd, errno); c.set(a); return; } }
    // no free slot: a harness defect, made visible
    crate::engine::HARNESS_FAULTS.fetch_add(1, std::sync::atomic::Ordering::Relaxed);
  });
}
pub fn clear(fd: i32) {
  let _ = FAULTS.try_with(|c| { let mut a = c.get(); for s in a.iter_mut() { if s.0 == fd { *s = (-1, 0); } } c.set(a); });
}
/// number of read calls of this thread that were failed by the seam
pub fn hits() -> u64 { HITS.try_with(|h| h.get()).unwrap_or(0) }

#[no_mangle]
pub unsafe extern "C" fn read(fd: libc::c_int, buf: *mut libc::c_void, count: libc::size_t) -> libc::ssize_t {
  if fd >= 0 {
    if let Ok(a) = FAULTS.try_with(|c| c.get()) {
      for s in a.iter() {
        if s.0 == fd {
          let _ = HITS.try_with(|h| h.set(h.get() + 1));
          *libc::__errno_location() = s.1;
          return -1;
        }
      }
    }
  }
  libc::syscall(libc::SYS_read, fd, buf, count) as libc::ssize_t
}
