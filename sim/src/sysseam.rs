// System-call seam for read(2).
//
// A pipe can be made to fail a read with EAGAIN (empty) or EBADF (descriptor not open for
// reading), but never with ENODEV — which is what an evdev node answers once the device has been
// unplugged, and what the shipped RealDriver turns into "the device is gone". To reach that code
// the harness defines the C symbol `read` itself: a definition in the executable takes precedence
// over the one in the shared C library, so every read the process makes through libc's `read`
// (nix, std) comes through here. Unless the calling thread has asked for a failure on exactly
// that descriptor the call goes straight to the kernel.
//
// Faults are per thread (a run lives on one worker thread; descriptor numbers are process-wide and
// are reused by other workers as soon as they are closed) and persistent until cleared: the
// descriptor "is dead from here on".

use std::cell::Cell;

const SLOTS: usize = 4;
thread_local! {
  static FAULTS: Cell<[(i32, i32); SLOTS]> = const { Cell::new([(-1, 0); SLOTS]) };
  static HITS: Cell<u64> = const { Cell::new(0) };
}

/// From now on every read(2) this thread makes on `fd` fails with `errno`.
pub fn fail_reads(fd: i32, errno: i32) {
  let _ = FAULTS.try_with(|c| {
    let mut a = c.get();
    for s in a.iter_mut() { if s.0 == fd { s.1 = errno; c.set(a); return; } }
    for s in a.iter_mut() { if s.0 < 0 { *s = (fd, errno); c.set(a); return; } }
    // no free slot: a harness defect, made visible
    crate::engine::HARNESS_FAULTS.fetch_add(1, std::sync::atomic::Ordering::Relaxed);
  });
}
pub fn clear(fd: i32) {
  let _ = FAULTS.try_with(|c| { let mut a = c.get(); for s in a.iter_mut() { if s.0 == fd { *s = (-1, 0); } } c.set(a); });
}
/// number of read calls of this thread that were failed by the seam
pub fn hits() -> u64 { HITS.try_with(|h| h.get()).unwrap_or(0) }

thread_local! {
  /// descriptors whose read(2) calls are counted: (fd, calls seen, fail from call number (u32::MAX = never), errno, fired)
  static WATCH: Cell<[(i32, u32, u32, i32, bool); SLOTS]> = const { Cell::new([(-1, 0, u32::MAX, 0, false); SLOTS]) };
}
/// count the read(2) calls this thread makes on `fd` from now on
pub fn watch_reads(fd: i32) { let _ = WATCH.try_with(|c| { let mut a = c.get(); if let Some(i) = a.iter().position(|e| e.0 == fd).or_else(|| a.iter().position(|e| e.0 < 0)) { a[i] = (fd, 0, u32::MAX, 0, false); } c.set(a); }); }
pub fn unwatch_reads(fd: i32) { let _ = WATCH.try_with(|c| { let mut a = c.get(); for e in a.iter_mut() { if e.0 == fd { *e = (-1, 0, u32::MAX, 0, false); } } c.set(a); }); }
pub fn reads_seen(fd: i32) -> u32 { WATCH.try_with(|c| c.get().iter().find(|e| e.0 == fd).map(|e| e.1).unwrap_or(0)).unwrap_or(0) }
/// the read(2) calls on the watched `fd` numbered `n`, `n`+1, ... (from 0) fail with `errno`
pub fn fail_reads_from_call(fd: i32, n: u32, errno: i32) { let _ = WATCH.try_with(|c| { let mut a = c.get(); for e in a.iter_mut() { if e.0 == fd { e.2 = n; e.3 = errno; } } c.set(a); }); }
/// the same, but only the call numbered `n` fails; the calls after it reach the kernel again (a
/// transient failure: the device hiccups once)
pub fn fail_read_call_once(fd: i32, n: u32, errno: i32) { fail_reads_from_call(fd, n, errno); let _ = WATCH_ONCE.try_with(|c| c.set(fd)); }
pub fn clear_once() { let _ = WATCH_ONCE.try_with(|c| c.set(-1)); }
thread_local! { static WATCH_ONCE: Cell<i32> = const { Cell::new(-1) }; }
/// has a call-numbered failure on `fd` happened yet?
pub fn watch_fired(fd: i32) -> bool { WATCH.try_with(|c| c.get().iter().any(|e| e.0 == fd && e.4)).unwrap_or(false) }

thread_local! {
  /// (mode, parameter, bytes handed out so far, calls so far, faults applied) — see `arm_file_reads`
  static FILE_PLAN: Cell<(u8, u32, u64, u64, u64)> = const { Cell::new((0, 0, 0, 0, 0)) };
}
/// Storage faults for a file the code under test reads on this thread (armed around one load):
/// mode 1 = every read returns at most `param` bytes (short counts), 2 = the read fails with EIO
/// once `param` bytes have been handed out, 3 = every `param`-th read is interrupted (EINTR) before
/// it transfers anything, 4 = short counts and interruptions together.
pub fn arm_file_reads(mode: u8, param: u32) { let _ = FILE_PLAN.try_with(|c| c.set((mode, param.max(1), 0, 0, 0))); }
/// ends the plan; returns how many reads it shortened, failed or interrupted
pub fn disarm_file_reads() -> u64 { FILE_PLAN.try_with(|c| { let v = c.get(); c.set((0, 0, 0, 0, 0)); v.4 }).unwrap_or(0) }

#[no_mangle]
pub unsafe extern "C" fn read(fd: libc::c_int, buf: *mut libc::c_void, count: libc::size_t) -> libc::ssize_t {
  if let Ok((mode, param, given, calls, hits)) = FILE_PLAN.try_with(|c| c.get()) {
    if mode != 0 && fd > 2 && count > 0 {
      let calls = calls + 1;
      if (mode == 3 || mode == 4) && calls % (param as u64 + 1) == 0 {
        let _ = FILE_PLAN.try_with(|c| c.set((mode, param, given, calls, hits + 1)));
        *libc::__errno_location() = libc::EINTR;
        return -1;
      }
      if mode == 2 && given >= param as u64 {
        let _ = FILE_PLAN.try_with(|c| c.set((mode, param, given, calls, hits + 1)));
        *libc::__errno_location() = libc::EIO;
        return -1;
      }
      let cap = match mode { 1 | 4 => (param as usize).min(count), 2 => ((param as u64 - given) as usize).min(count), _ => count };
      let r = libc::syscall(libc::SYS_read, fd, buf, cap) as libc::ssize_t;
      let _ = FILE_PLAN.try_with(|c| c.set((mode, param, given + r.max(0) as u64, calls, hits + (cap < count) as u64)));
      return r;
    }
  }
  let mut eof_errno = 0;
  if fd >= 0 {
    if let Ok(mut w) = WATCH.try_with(|c| c.get()) {
      if let Some(i) = w.iter().position(|e| e.0 == fd) {
        let call = w[i].1; w[i].1 = call.saturating_add(1);
        let once = WATCH_ONCE.try_with(|c| c.get() == fd).unwrap_or(false);
        let fail = if once { call == w[i].2 } else { call >= w[i].2 };
        if fail { w[i].4 = true; }
        let errno = w[i].3;
        let _ = WATCH.try_with(|c| c.set(w));
        if fail { let _ = HITS.try_with(|h| h.set(h.get() + 1)); *libc::__errno_location() = errno; return -1; }
      }
    }
    if let Ok(a) = FAULTS.try_with(|c| c.get()) {
      for s in a.iter() {
        if s.0 == fd {
          if s.1 < 0 { eof_errno = -s.1; continue; }
          let _ = HITS.try_with(|h| h.set(h.get() + 1));
          *libc::__errno_location() = s.1;
          return -1;
        }
      }
    }
  }
  let r = libc::syscall(libc::SYS_read, fd, buf, count) as libc::ssize_t;
  if r == 0 && count > 0 && eof_errno != 0 {
    // end of file is something a pipe whose write end was closed produces and a device node never
    // does: a node that went away answers with an error
    let _ = HITS.try_with(|h| h.set(h.get() + 1));
    *libc::__errno_location() = eof_errno;
    return -1;
  }
  r
}

/// From now on a read(2) of this thread on `fd` that would report end of file (0 bytes: the write
/// end of the pipe was closed and the queue is empty) fails with `errno` instead. Queued data stays
/// readable. A later `fail_reads` on the same descriptor takes over.
pub fn eof_reads_fail(fd: i32, errno: i32) {
  let _ = FAULTS.try_with(|c| {
    let mut a = c.get();
    for s in a.iter_mut() { if s.0 == fd { return; } }
    for s in a.iter_mut() { if s.0 < 0 { *s = (fd, -errno); c.set(a); return; } }
    crate::engine::HARNESS_FAULTS.fetch_add(1, std::sync::atomic::Ordering::Relaxed);
  });
}

// ------------------------------------------------------------------------------------------
// System-call seam for the wait calls: epoll_wait(2) / epoll_pwait(2) / poll(2) / ppoll(2), and an
// observer on epoll_ctl(2).
//
// The shipped RealDriver::poll waits in mio's `Poll::poll`, i.e. in epoll_wait. With the symbols
// defined here a run can let the loop call the real `poll` with the loop's own time-out while the
// simulated kernel decides what the system call answers and how much simulated time it took:
// nothing really waits. A thread that has not armed a handler gets the plain system call.
// poll/ppoll are covered as well so that a driver rewritten on top of poll(2) — a legitimate
// refactoring — is simulated the same way instead of blocking the harness for real.
// epoll_ctl is passed through and only observed: the simulated kernel learns which user data
// (mio token) was registered for which descriptor, so it can fabricate a readiness report for a
// descriptor the way the kernel would.

pub enum WaitCall {
  Epoll { epfd: libc::c_int, events: *mut libc::epoll_event, maxevents: libc::c_int },
  Poll { fds: *mut libc::pollfd, nfds: libc::nfds_t },
}
impl WaitCall {
  /// the real system call with a zero time-out: what is ready right now (n > 0), nothing (0), or -1
  pub unsafe fn probe(&self) -> libc::c_int {
    match self {
      WaitCall::Epoll { epfd, events, maxevents } => libc::syscall(libc::SYS_epoll_wait, *epfd, *events, *maxevents, 0) as libc::c_int,
      WaitCall::Poll { fds, nfds } => libc::syscall(libc::SYS_poll, *fds, *nfds, 0) as libc::c_int,
    }
  }
}
pub type WaitHandler = unsafe fn(ctx: *mut (), call: &WaitCall, timeout_ms: libc::c_int) -> libc::c_int;

thread_local! {
  static WAIT_HANDLER: Cell<Option<(*mut (), WaitHandler)>> = const { Cell::new(None) };
  /// (epfd, fd, registered events mask, registered user data)
  static EPOLL_REG: Cell<[(i32, i32, u32, u64); 8]> = const { Cell::new([(-1, -1, 0, 0); 8]) };
}

pub fn arm_wait(ctx: *mut (), h: WaitHandler) { let _ = WAIT_HANDLER.try_with(|c| c.set(Some((ctx, h)))); }
pub fn disarm_wait() { let _ = WAIT_HANDLER.try_with(|c| c.set(None)); }
fn armed() -> Option<(*mut (), WaitHandler)> { WAIT_HANDLER.try_with(|c| c.get()).ok().flatten() }
/// what this thread registered for `fd` (in any epoll instance): (events mask, user data)
pub fn epoll_registration(fd: i32) -> Option<(u32, u64)> {
  EPOLL_REG.try_with(|c| c.get().iter().find(|e| e.1 == fd).map(|e| (e.2, e.3))).ok().flatten()
}
pub fn forget_epoll_registrations() { let _ = EPOLL_REG.try_with(|c| c.set([(-1, -1, 0, 0); 8])); }
pub unsafe fn set_errno(e: i32) { *libc::__errno_location() = e; }

#[no_mangle]
pub unsafe extern "C" fn epoll_wait(epfd: libc::c_int, events: *mut libc::epoll_event, maxevents: libc::c_int, timeout_ms: libc::c_int) -> libc::c_int {
  if let Some((ctx, h)) = armed() { return h(ctx, &WaitCall::Epoll { epfd, events, maxevents }, timeout_ms); }
  libc::syscall(libc::SYS_epoll_wait, epfd, events, maxevents, timeout_ms) as libc::c_int
}

#[no_mangle]
pub unsafe extern "C" fn epoll_pwait(epfd: libc::c_int, events: *mut libc::epoll_event, maxevents: libc::c_int, timeout_ms: libc::c_int, sigmask: *const libc::sigset_t) -> libc::c_int {
  if let Some((ctx, h)) = armed() { return h(ctx, &WaitCall::Epoll { epfd, events, maxevents }, timeout_ms); }
  libc::syscall(libc::SYS_epoll_pwait, epfd, events, maxevents, timeout_ms, sigmask, 8usize) as libc::c_int
}

#[no_mangle]
pub unsafe extern "C" fn poll(fds: *mut libc::pollfd, nfds: libc::nfds_t, timeout_ms: libc::c_int) -> libc::c_int {
  if let Some((ctx, h)) = armed() { return h(ctx, &WaitCall::Poll { fds, nfds }, timeout_ms); }
  libc::syscall(libc::SYS_poll, fds, nfds, timeout_ms) as libc::c_int
}

#[no_mangle]
pub unsafe extern "C" fn ppoll(fds: *mut libc::pollfd, nfds: libc::nfds_t, timeout: *const libc::timespec, sigmask: *const libc::sigset_t) -> libc::c_int {
  if let Some((ctx, h)) = armed() {
    let ms: libc::c_int = if timeout.is_null() { -1 } else {
      let t = &*timeout;
      let ms = (t.tv_sec as i128) * 1000 + ((t.tv_nsec as i128) + 999_999) / 1_000_000;
      ms.clamp(0, libc::c_int::MAX as i128) as libc::c_int
    };
    return h(ctx, &WaitCall::Poll { fds, nfds }, ms);
  }
  libc::syscall(libc::SYS_ppoll, fds, nfds, timeout, sigmask, 8usize) as libc::c_int
}

#[no_mangle]
pub unsafe extern "C" fn epoll_ctl(epfd: libc::c_int, op: libc::c_int, fd: libc::c_int, event: *mut libc::epoll_event) -> libc::c_int {
  let r = libc::syscall(libc::SYS_epoll_ctl, epfd, op, fd, event) as libc::c_int;
  if r == 0 {
    let _ = EPOLL_REG.try_with(|c| {
      let mut a = c.get();
      match op {
        libc::EPOLL_CTL_ADD | libc::EPOLL_CTL_MOD if !event.is_null() => {
          let ev = std::ptr::read_unaligned(event);
          let (mask, data) = (ev.events, ev.u64);
          let slot = a.iter().position(|e| e.0 == epfd && e.1 == fd).or_else(|| a.iter().position(|e| e.1 < 0));
          if let Some(i) = slot { a[i] = (epfd, fd, mask, data); }
        }
        libc::EPOLL_CTL_DEL => { for e in a.iter_mut() { if e.0 == epfd && e.1 == fd { *e = (-1, -1, 0, 0); } } }
        _ => {}
      }
      c.set(a);
    });
  }
  r
}

// ------------------------------------------------------------------------------------------
// System-call seam for write(2): the calls a thread makes on a watched descriptor are counted, and
// the calls numbered n .. n+count-1 can be made to fail — permanently (count = u32::MAX) or only
// for a while (a queue that is full now and drained a moment later, an interrupted call). Unlike
// a broken descriptor this lands in the middle of whatever the writer does for one batch.
thread_local! {
  /// (fd, calls seen, fail from call number, how many calls fail, errno, a failure happened since last asked)
  static WATCHW: Cell<[(i32, u32, u32, u32, i32, bool); SLOTS]> = const { Cell::new([(-1, 0, u32::MAX, 0, 0, false); SLOTS]) };
  /// (fd, call number, bytes): that write(2) call transfers only `bytes` bytes (a short count)
  static SHORTW: Cell<(i32, u32, usize)> = const { Cell::new((-1, 0, 0)) };
}
/// the write(2) call numbered `call` on the watched `fd` transfers at most `bytes` bytes
pub fn short_write(fd: i32, call: u32, bytes: usize) { let _ = SHORTW.try_with(|c| c.set((fd, call, bytes))); }
pub fn clear_short_write() { let _ = SHORTW.try_with(|c| c.set((-1, 0, 0))); }
pub fn watch_writes(fd: i32) { let _ = WATCHW.try_with(|c| { let mut a = c.get(); if let Some(i) = a.iter().position(|e| e.0 == fd).or_else(|| a.iter().position(|e| e.0 < 0)) { a[i] = (fd, 0, u32::MAX, 0, 0, false); } c.set(a); }); }
pub fn unwatch_writes(fd: i32) { clear_short_write(); let _ = WATCHW.try_with(|c| { let mut a = c.get(); for e in a.iter_mut() { if e.0 == fd { *e = (-1, 0, u32::MAX, 0, 0, false); } } c.set(a); }); }
pub fn writes_seen(fd: i32) -> u32 { WATCHW.try_with(|c| c.get().iter().find(|e| e.0 == fd).map(|e| e.1).unwrap_or(0)).unwrap_or(0) }
pub fn fail_writes(fd: i32, from: u32, count: u32, errno: i32) { let _ = WATCHW.try_with(|c| { let mut a = c.get(); for e in a.iter_mut() { if e.0 == fd { e.2 = from; e.3 = count; e.4 = errno; } } c.set(a); }); }
/// did a write on `fd` fail since this was last asked?
pub fn take_write_failed(fd: i32) -> bool { WATCHW.try_with(|c| { let mut a = c.get(); let mut f = false; for e in a.iter_mut() { if e.0 == fd && e.5 { f = true; e.5 = false; } } c.set(a); f }).unwrap_or(false) }

#[no_mangle]
pub unsafe extern "C" fn write(fd: libc::c_int, buf: *const libc::c_void, count: libc::size_t) -> libc::ssize_t {
  if fd > 2 {
    if let Ok(mut w) = WATCHW.try_with(|c| c.get()) {
      if let Some(i) = w.iter().position(|e| e.0 == fd) {
        let call = w[i].1; w[i].1 = call.saturating_add(1);
        let fail = call >= w[i].2 && (call - w[i].2) < w[i].3;
        if fail { w[i].5 = true; }
        let errno = w[i].4;
        let _ = WATCHW.try_with(|c| c.set(w));
        if fail { *libc::__errno_location() = errno; return -1; }
        if let Ok((sfd, scall, sbytes)) = SHORTW.try_with(|c| c.get()) { if sfd == fd && scall == call && sbytes < count { return libc::syscall(libc::SYS_write, fd, buf, sbytes) as libc::ssize_t; } }
      }
    }
  }
  libc::syscall(libc::SYS_write, fd, buf, count) as libc::ssize_t
}
