// Which campaigns decide which property, and the simulator's own self-checks.

use crate::engine::*;
use crate::worlda::{KeyCampaign, Source};
use crate::worldb::{LoopCampaign, SourceB};
use crate::wiresim::WireCampaign;
use crate::storesim::StoreCampaign;
use crate::worlde::E2ECampaign;
use crate::rng::mix;

pub fn claimed() -> Vec<&'static str> {
  vec!["C01", "C02", "C03", "C04", "C05", "C06", "C07", "C08", "C09", "C10", "C11", "C12", "C14", "C18", "C19", "C20"]
}

fn a_assumptions(uses_r: bool) -> Vec<String> {
  let mut v = vec![
    "histories, schedules and layouts are sampled (seeded search), not enumerated: a clean batch is evidence, not proof".to_string(),
    "'held on the physical keyboard' = fold of the delivered input events (press adds, release removes; duplicates and releases of unheld keys change nothing)".to_string(),
    "'held on the virtual keyboard' = fold of all emitted events".to_string(),
  ];
  if uses_r { v.push("the reference control model R (sim/src/refmodel.rs, ~60 lines) defines 'fires', 'in effect', 'considers held'; it is part of the trusted base".to_string()); }
  v
}

fn b_assumptions() -> Vec<String> {
  vec![
    "schedules, histories, layouts and fault placements are sampled (seeded search), not enumerated".to_string(),
    "the simulated driver models epoll edge-triggered readiness, device removal as End, signals as Interrupted, and a clock that moves only inside driver calls and the simulated back-off sleep".to_string(),
    "not injected: an early TimedOut while a timer is armed (epoll_wait cannot produce it), short writes to uinput".to_string(),
    "RefLoop (sim/src/loopsim.rs check_trace) replays the recorded trace against its own real Mapper; it is part of the trusted base".to_string(),
    "Special repeats are generated with delay >= 0 ms and interval >= 1 ms".to_string(),
  ]
}

/// The mapper-level properties are also checked end to end (world E).
pub fn spec_for(id: &str) -> Option<CheckSpec> {
  let mut s = spec_for_inner(id)?;
  let e: Option<Box<dyn Campaign>> = match id {
    "C01" | "C02" | "C05" | "C07" | "C19" => Some(Box::new(E2ECampaign::new(s.property, Source::Random, None, 300_000, 6_000_000))),
    "C03" => Some(Box::new(E2ECampaign::new(s.property, Source::Dist, Some(false), 300_000, 6_000_000))),
    "C04" => Some(Box::new(E2ECampaign::new(s.property, Source::Dist, None, 300_000, 6_000_000))),
    "C08" => Some(Box::new(E2ECampaign::new(s.property, Source::Dist, Some(true), 300_000, 6_000_000))),
    _ => None,
  };
  if let Some(c) = e {
    s.campaigns.push(c);
    s.assumptions.push("end-to-end campaign (world E): the same oracle is evaluated on the outputs the real loop wrote for each delivered key event when the whole path evdev bytes -> real reader -> shipped RealDriver -> real loop -> real writer -> uinput bytes runs on pipes; batches are attributed to the key event read just before, timer chords are left to C11".to_string());
  }
  Some(s)
}

fn spec_for_inner(id: &str) -> Option<CheckSpec> {
  let k = |p: &'static str, s: Source, q: u64, t: u64| KeyCampaign::new(p, s, q, t);
  let spec = |property: &'static str, campaigns: Vec<Box<dyn Campaign>>, uses_r: bool| CheckSpec { property, level: "exploration", campaigns, assumptions: a_assumptions(uses_r), exhaustive_note: None };
  let b = |p: &'static str, s: SourceB, q: u64, t: u64| LoopCampaign::new(p, s, q, t);
  let bspec = |property: &'static str, campaigns: Vec<Box<dyn Campaign>>| CheckSpec { property, level: "exploration", campaigns, assumptions: b_assumptions(), exhaustive_note: None };
  const QB: u64 = 800_000; const TB: u64 = 50_000_000;
  const Q: u64 = 2_000_000; const QS: u64 = 400_000;
  const T: u64 = 80_000_000; const TS: u64 = 10_000_000;
  Some(match id {
    "C01" => spec("C01", vec![Box::new(k("C01", Source::Random, Q, T).resets()), Box::new(k("C01", Source::Shipped, QS, TS).resets())], false),
    "C02" => spec("C02", vec![Box::new(k("C02", Source::Random, Q, T).resets()), Box::new(k("C02", Source::Shipped, QS, TS).resets())], true),
    "C03" => spec("C03", vec![Box::new(k("C03", Source::Dist, Q, T).absorbing(Some(false)).resets()), Box::new(k("C03", Source::Random, Q / 2, T / 2).absorbing(Some(false)).resets()), Box::new(k("C03", Source::Shipped, QS, TS).absorbing(Some(false)).resets())], true),
    "C04" => spec("C04", vec![Box::new(k("C04", Source::Dist, Q, T).resets()), Box::new(k("C04", Source::Random, Q / 2, T / 2).resets()), Box::new(k("C04", Source::Shipped, QS, TS).resets())], true),
    "C05" => spec("C05", vec![Box::new(k("C05", Source::Random, Q, T)), Box::new(k("C05", Source::Shipped, QS, TS)), Box::new(k("C05", Source::Empty, 50_000, 2_000_000))], true),
    "C06" => { let mut s = spec("C06", vec![Box::new(k("C06", Source::Random, Q, T).resets()), Box::new(k("C06", Source::Shipped, QS, TS).resets()), Box::new(b("C06", SourceB::Random, QB / 2, TB / 4).tablet().special())], false);
      s.assumptions.push("loop campaign: after every tablet-mode change (the reset the statement names) the real loop is compared with RefLoop continued with a brand-new mapper and no timer; a send a freshly started loop would not make, or a missing/different one, is reported as C06-loop-not-fresh".to_string()); s }
    "C07" => spec("C07", vec![Box::new(k("C07", Source::Random, Q, T).norepeat().special().resets()), Box::new(k("C07", Source::Shipped, QS, TS).resets())], true),
    "C08" => spec("C08", vec![Box::new(k("C08", Source::Dist, Q, T).absorbing(Some(true)))], true),
    "C09" => { let mut s = spec("C09", vec![Box::new(k("C09", Source::Random, Q, T).special().resets()), Box::new(k("C09", Source::Shipped, QS, TS).resets()), Box::new(b("C09", SourceB::Random, QB / 2, TB / 4).special())], true);
      s.assumptions.push("loop campaign: what the loop does with the repeat requests is observed through its poll timeouts and chords (armed exactly when a Special mapping fired, cancelled by every acted-on event, untouched by ignored ones); a disagreement with RefLoop's timer state is reported as C09-loop-repeat-state".to_string()); s }
    "C19" => spec("C19", vec![Box::new(k("C19", Source::Random, Q, T).resets()), Box::new(k("C19", Source::Shipped, QS, TS).resets()), Box::new(b("C19", SourceB::Random, QB / 2, TB / 4))], false),
    "C10" => bspec("C10", vec![Box::new(b("C10", SourceB::Random, QB, TB)), Box::new(b("C10", SourceB::Shipped, QB / 4, TB / 4)), Box::new(b("C10", SourceB::Random, 100_000, 3_000_000).hybrid().tablet())]),
    "C11" => bspec("C11", vec![Box::new(b("C11", SourceB::Random, QB, TB).special()), Box::new(b("C11", SourceB::Shipped, QB / 4, TB / 4)), Box::new(b("C11", SourceB::Random, 150_000, 4_000_000).special().syspoll())]),
    "C12" => bspec("C12", vec![Box::new(b("C12", SourceB::Random, QB, TB).tablet()), Box::new(b("C12", SourceB::Shipped, QB / 4, TB / 4).tablet()), Box::new(b("C12", SourceB::Random, 100_000, 3_000_000).hybrid().tablet())]),
    "C20" => { let mut s = bspec("C20", vec![Box::new(b("C20", SourceB::Random, 30_000, 3_000_000).sweep()), Box::new(b("C20", SourceB::Shipped, 10_000, 600_000).sweep()), Box::new(b("C20", SourceB::Random, 6_000, 400_000).write_faults().tablet())]); s.level = "fault_enumeration"; s }
    "C18" => CheckSpec { property: "C18", level: "exploration", campaigns: vec![Box::new(WireCampaign::new(true, 0, 0)), Box::new(WireCampaign::lengths()), Box::new(WireCampaign::new(false, 400_000, 20_000_000)), Box::new(b("C18", SourceB::Random, 100_000, 3_000_000).hybrid().tablet())],
      assumptions: vec!["libc::input_event for this target (x86-64: 24 bytes) is the kernel's record layout".into(), "KeyCode discriminants are the kernel key numbers".into(), "an evdev node delivers whole records; EOF and short reads do not occur on it (device removal is ENODEV, injected in world B)".into(), "batches and interleavings are sampled; the sweep over all key codes x {press, release} is exhaustive".into()],
      exhaustive_note: Some("campaign wiresim-all-codes enumerates every key code the tool knows x {press, release, inside a batch}".into()) },
    "C14" => CheckSpec { property: "C14", level: "exploration", campaigns: vec![Box::new(StoreCampaign::new(true, 0, 0)), Box::new(StoreCampaign::new(false, 400_000, 30_000_000))],
      assumptions: vec!["the byte-string quantifier is sampled from a grammar of valid and near-valid layout programs plus storage faults; only the truncation sweep over the shipped texts is exhaustive".into(), "a panic is observed as an unwind (catch_unwind); aborts cannot occur in this code (no allocation of attacker-chosen size)".into(), "'loading' is layout_loading::load_layout_from_file, the function main.rs and the systemd service use".into()],
      exhaustive_note: Some("campaign storesim-truncation-sweep enumerates every truncation offset of every shipped layout text".into()) },
    _ => return None,
  })
}

/// Small in-process determinism check, run at the start of every check: the first runs of every
/// campaign are executed twice. The generated case must be identical (anything else is a defect of
/// the harness: exit 2). If the case is identical but what the system under test did with it is
/// not, the tree under test is itself not deterministic (say, it iterates a randomly seeded hash
/// table): that is no reason to refuse a verdict — every run is still judged on what it actually
/// did — so the check goes on and says so; only exact replay is then not guaranteed.
pub fn determinism_precheck(spec: &CheckSpec, seed: u64, thorough: bool) -> Result<bool, String> {
  let mut sut_nondet = false;
  for camp in &spec.campaigns {
    let cname = camp.name();
    for idx in 0..48u64 {
      let s = run_seed(seed, spec.property, &cname, idx);
      let mut a1 = Acc::default(); let mut a2 = Acc::default();
      let r1 = camp.run(s, idx, &mut Ctx { thorough, want_sample: false, acc: &mut a1 });
      PROGRESS.fetch_add(1, std::sync::atomic::Ordering::Relaxed);
      let r2 = camp.run(s, idx, &mut Ctx { thorough, want_sample: false, acc: &mut a2 });
      if r1.case_hash != r2.case_hash { return Err(format!("campaign {} run {} (seed {}) does not generate the same case twice", cname, idx, s)); }
      if r1.digest != r2.digest || r1.failure.is_some() != r2.failure.is_some() || r1.state_hashes != r2.state_hashes || a1.counters != a2.counters || a1.faults != a2.faults {
        if !sut_nondet { eprintln!("note: campaign {} run {} (seed {}): the same case executed twice gave two different histories — the tree under test is not deterministic; runs are judged on what they did, exact replay is not guaranteed", cname, idx, s); }
        sut_nondet = true;
      }
    }
  }
  Ok(sut_nondet)
}

/// Larger self-test: every claimed property, several seeds, each executed twice in-process with
/// different worker counts; the order-insensitive run digests and all counters must agree.
pub fn selftest(large: bool) -> i32 {
  let seeds: Vec<u64> = if large { (1..=8).collect() } else { vec![1, 2] };
  let runs = if large { 20_000 } else { 4_000 };
  let mut bad = 0;
  for p in claimed() {
    for seed in &seeds {
      let mut digests = vec![];
      for threads in [1usize, 4, 16] {
        let spec = spec_for(p).unwrap();
        std::env::set_var("VERIF_SELFTEST", "1");
        let d = digest_only(&spec, *seed, threads, runs);
        digests.push(d);
      }
      if digests.iter().any(|d| *d != digests[0]) { println!("selftest: {} seed {} NOT deterministic across worker counts: {:?}", p, seed, digests); bad += 1; }
      else { println!("selftest: {} seed {} ok ({:016x})", p, seed, digests[0]); }
    }
  }
  if bad > 0 { 2 } else { 0 }
}

fn digest_only(spec: &CheckSpec, seed: u64, threads: usize, runs: u64) -> u64 {
  use std::sync::atomic::{AtomicU64, Ordering};
  use std::sync::Mutex;
  let total = AtomicU64::new(0);
  let merged: Mutex<std::collections::BTreeMap<String, u64>> = Mutex::new(Default::default());
  for camp in &spec.campaigns {
    let cname = camp.name();
    let next = AtomicU64::new(0);
    std::thread::scope(|s| {
      for _ in 0..threads {
        s.spawn(|| {
          let mut acc = Acc::default();
          let mut d = 0u64;
          loop {
            let i = next.fetch_add(1, Ordering::Relaxed);
            if i >= runs { break; }
            let r = camp.run(run_seed(seed, spec.property, &cname, i), i, &mut Ctx { thorough: false, want_sample: false, acc: &mut acc });
            PROGRESS.fetch_add(1, Ordering::Relaxed);
            let mut sh = 0u64; for h in &r.state_hashes { sh = sh.wrapping_add(*h); }
            d = d.wrapping_add(mix(i, r.digest ^ r.case_hash ^ sh ^ (r.failure.is_some() as u64) ^ ((r.nontrivial as u64) << 1)));
          }
          total.fetch_add(d, Ordering::Relaxed);
          let mut g = merged.lock().unwrap();
          for (k, v) in &acc.counters { *g.entry(format!("c:{}:{}", cname, k)).or_insert(0) += v; }
          for (k, v) in &acc.faults { *g.entry(format!("f:{}:{}", cname, k)).or_insert(0) += v; }
          for (k, v) in &acc.probes { *g.entry(format!("p:{}:{}", cname, k)).or_insert(0) += v; }
        });
      }
    });
  }
  let mut d = total.load(Ordering::Relaxed);
  for (k, v) in merged.into_inner().unwrap() { d = d.wrapping_add(mix(crate::rng::hash_str(&k), v)); }
  d
}
