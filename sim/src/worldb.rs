// World-B campaigns: seeded arrival schedules, fault configurations and (for C20) the per-call
// failure sweep around the real event loop.

use crate::keys::*;
use crate::common::*;
use crate::engine::*;
use crate::gen::*;
use crate::loopsim::*;
use crate::rng::{Rng, H};
use serde_json::{json, Value};
use std::panic::{catch_unwind, AssertUnwindSafe};

#[derive(Clone, Copy, PartialEq, Debug)]
pub enum SourceB { Shipped, Random }

pub struct LoopCampaign {
  pub property: &'static str,
  pub source: SourceB,
  pub en: EnB,
  pub force_special: bool,
  pub force_tablet: bool,
  /// C20: re-execute every sampled schedule once per driver call with that call failing
  pub sweep: bool,
  /// route bytes through the real reader/writer on pipes (C18 hybrid mode)
  pub hybrid: bool,
  /// hybrid only: every send of the schedule fails in turn at the OS level under the real writer
  pub write_faults: bool,
  pub io_faults: bool,
  /// hybrid only: every run lets the loop's poll go through the shipped RealDriver::poll (otherwise one run in two)
  pub force_syspoll: bool,
  pub quick_runs: u64,
  pub thorough_runs: u64,
  pub shipped: Vec<NamedLayout>,
}

impl LoopCampaign {
  pub fn new(property: &'static str, source: SourceB, quick_runs: u64, thorough_runs: u64) -> LoopCampaign {
    let shipped = if source == SourceB::Shipped { shipped_layouts() } else { vec![] };
    LoopCampaign { property, source, en: EnB::only(property), force_special: false, force_tablet: false, sweep: false, hybrid: false, write_faults: false, io_faults: false, force_syspoll: false, quick_runs, thorough_runs, shipped }
  }
  pub fn special(mut self) -> Self { self.force_special = true; self }
  pub fn tablet(mut self) -> Self { self.force_tablet = true; self }
  pub fn sweep(mut self) -> Self { self.sweep = true; self }
  pub fn hybrid(mut self) -> Self { self.hybrid = true; self }
  pub fn syspoll(mut self) -> Self { self.hybrid = true; self.force_syspoll = true; self }
  pub fn write_faults(mut self) -> Self { self.write_faults = true; self.hybrid = true; self }

  pub fn generate(&self, seed: u64, thorough: bool) -> CaseB {
    let mut rng = Rng::new(seed);
    // one random-layout case in 48 has a wide shape (see gen_wide_layout), with up to 12 keys held
    let wide = matches!(self.source, SourceB::Random) && crate::rng::mix(seed, 0x71de2) % 48 == 0;
    let (layout, name) = match self.source {
      SourceB::Shipped => { let n = &self.shipped[rng.below(self.shipped.len())]; (n.layout.clone(), n.name.clone()) }
      SourceB::Random => {
        let o = LayoutOpts { weird: rng.chance(1, 5), related: rng.chance(1, 2), dense: rng.chance(1, 6), absorbing: rng.chance(1, 3), norepeat: rng.chance(1, 2), special: self.force_special || rng.chance(2, 3), max_map: if thorough { rng.range(1, 6) } else { rng.range(1, 4) }, big: thorough && rng.chance(1, 3), edge_times: true };
        let mut tries = 0;
        loop {
          let mut l = if wide { gen_wide_layout(&mut rng, &o) } else if rng.chance(1, 4) { gen_motif_layout(&mut rng, &o) } else { gen_layout(&mut rng, &o) };
          if self.force_special && !l.mappings.iter().any(|m| matches!(m.repeat, Repeat::Special { .. })) && !l.mappings.is_empty() {
            // make sure at least one mapping repeats specially; its repeat keys may overlap keys that can be held
            let i = rng.below(l.mappings.len());
            let mut keys = vec![];
            for _ in 0..rng.below(4) { let k = if rng.chance(1, 2) { rng.pick(OUT_MODS) } else { rng.pick(OUT_ACT) }; if !keys.contains(&k) { keys.push(k); } }
            let d0 = [0, 1, 50, 130, 180][rng.below(5)]; let i0 = [1, 3, 30, 45][rng.below(4)];
            let (d, iv) = long_times(&mut rng, d0, i0);
            l.mappings[i].repeat = Repeat::Special { keys, delay_ms: d, interval_ms: iv };
          }
          // one special-repeat layout in twelve gets a long repeat chord (9-14 keys, most of the
          // modifiers among them, in random positions): a key late in a long chord that is held when
          // the chord is due
          if self.force_special && crate::rng::mix(seed, 0x109c) % 12 == 0 {
            let mut r3 = Rng::new(crate::rng::mix(seed, 0x109d));
            if let Some(m) = l.mappings.iter_mut().find(|m| matches!(m.repeat, Repeat::Special { .. })) {
              if let Repeat::Special { keys, .. } = &mut m.repeat {
                let pool: Vec<KeyCode> = OUT_MODS_BIG.iter().chain(OUT_ACT_BIG.iter()).chain(TRIG_POOL.iter()).cloned().collect();
                let want = r3.range(9, 14);
                let mut guard = 0;
                while keys.len() < want && guard < 200 { guard += 1; let k = r3.pick(&pool); if !keys.contains(&k) { let at = r3.below(keys.len() + 1); keys.insert(at, k); } }
              }
            }
          }
          tries += 1;
          match through_loader(&l) { Some(l2) => break (l2, "random".to_string()), None => { if tries > 20 { break (Layout { mappings: vec![] }, "empty-fallback".to_string()); } } }
        }
      }
    };
    let mut ho = swarm_hist(&mut rng, false, true, false, false);
    if wide && !ho.crowd { ho.max_held = rng.range(4, 12); ho.intents = rng.range(1, 3); }
    // one run in eight is a burst: a long history that arrives in a few big batches, so a single
    // readiness notification covers tens of events
    let bursty = rng.chance(1, 8);
    // one run in 200 is a marathon (hundreds of events, mostly back to back): counters, capacities
    // and every-N-th-time clean-ups in the loop or the mapper
    let marathon = rng.chance(1, 200);
    let bursty = bursty || marathon || ho.crowd;
    ho.len = if ho.crowd { ho.len } else if marathon { if thorough { rng.range(150, 900) } else { rng.range(150, 450) } } else if bursty { if thorough { rng.range(20, 150) } else { rng.range(20, 70) } } else if thorough { rng.range(2, 40) } else { rng.range(2, 18) };
    ho.resets = false;
    let mut st = GenStats::default();
    let ops = gen_ops(&mut rng, &layout, &ho, &mut st);
    let has_tablet = self.force_tablet || rng.chance(1, 3);
    let tab_rate = if self.force_tablet { 5 } else { 8 };
    let mut t = 0u64;
    let mut kbd = vec![]; let mut tab = vec![];
    let mut tab_state = false;
    let counted_tab = marathon && has_tablet && crate::rng::mix(seed, 0xc0de7) % 2 == 0;
    let round_counts: Vec<usize> = if counted_tab { let c = [64usize, 100, 127, 128, 129, 255, 256, 257, 384, 511, 512, 513]; let mut r3 = Rng::new(crate::rng::mix(seed, 0xc0de8)); (0..3).map(|_| r3.pick(&c)).collect() } else { vec![] };
    // one run in six has long pauses
    let idle_prone = crate::rng::mix(seed, 0x1d1e0) % 6 == 0;
    let idle_cap_us: u64 = layout.mappings.iter().filter_map(|m| if let Repeat::Special { delay_ms, interval_ms, .. } = &m.repeat { Some((*delay_ms).min(*interval_ms).max(0) as u64 * 150_000) } else { None }).min().unwrap_or(u64::MAX);
    let mut idle_gaps = 0u64; let _ = &idle_gaps;
    for op in ops {
      let e = match op { Op::Ev(e) => e, _ => continue };
      let gap = if idle_prone && rng.chance(1, 8) && idle_cap_us >= 1_000_000 {
        // a long pause (seconds to hours) in the middle of a history, with whatever is held staying
        // held: simulated time is free. With a repeat timer in the layout the pause is bounded by
        // 150 of its shortest periods, so that the run stays within the trace cap
        idle_gaps += 1;
        let g = match rng.below(6) { 0 => 3_000_000 + rng.below(12_000_000) as u64, 1 => 10_000_000 + rng.below(2_000_000) as u64, 2 => 60_000_000 + rng.below(60_000_000) as u64, 3 => 600_000_000, 4 => 3_600_000_000 + rng.below(1000) as u64, _ => 7_200_000_000 + rng.below(86_400_000_000) as u64 };
        g.min(idle_cap_us)
      } else if bursty && !rng.chance(1, 12) { 0 } else { match rng.below(10) { 0..=2 => 0, 3..=4 => rng.below(5000) as u64, 5..=7 => 20_000 + rng.below(80_000) as u64, _ => 150_000 + rng.below(400_000) as u64 } };
      t += gap;
      if counted_tab {
        // marathons: half of them have their tablet changes after round numbers of key events only
        if round_counts.contains(&(kbd.len())) || (tab_state && rng.chance(1, 6)) {
          tab_state = !tab_state;
          let tt = tab.last().map(|(pt, _): &(u64, bool)| t.max(*pt)).unwrap_or(t);
          tab.push((tt, tab_state));
        }
      } else if has_tablet && rng.chance(1, tab_rate) {
        // mostly alternate, sometimes repeat the same state
        let on = if rng.chance(1, 5) { tab_state } else { !tab_state };
        tab_state = on;
        let tt = match rng.below(3) { 0 => t, 1 => t.saturating_sub(rng.below(3000) as u64), _ => t + rng.below(3000) as u64 };
        let tt = tab.last().map(|(pt, _): &(u64, bool)| tt.max(*pt)).unwrap_or(tt);
        tab.push((tt, on));
      }
      kbd.push((t, e));
    }
    // one run in three is renamed over the whole key-code space (see common::random_renaming)
    let (layout, name, kbd) = if self.source == SourceB::Random && rng.chance(1, 3) {
      let mut used = layout_keys(&layout);
      for (_, e) in &kbd { let k = ev_key(e); if !used.contains(&k) { used.push(k); } }
      let map = random_renaming(&mut rng, &used, &[]);
      match through_loader(&rename_layout(&map, &layout)) {
        Some(l2) => (l2, format!("{}-renamed", name), kbd.iter().map(|(t, e)| (*t, rename_event(&map, e))).collect::<Vec<_>>()),
        None => (layout, name, kbd),
      }
    } else { (layout, name, kbd) };
    let swarm = |rng: &mut Rng, choices: &[u32]| if rng.chance(1, 2) { 0 } else { rng.pick(choices) };
    let cfg = FaultCfg {
      p_eintr: swarm(&mut rng, &[3, 10, 30]),
      p_spurious_timeout: swarm(&mut rng, &[5, 20]),
      p_spurious_ready: swarm(&mut rng, &[5, 20]),
      p_latency: swarm(&mut rng, &[10, 40]),
      p_oversleep: swarm(&mut rng, &[20, 60]),
      max_interrupts: rng.below(5) as u32,
    };
    // storms: now and then one fault kind fires at almost every opportunity, so that long runs of
    // consecutive spurious time-outs, spurious readiness reports or interruptions occur
    let mut cfg = cfg;
    match rng.below(24) { 0 => cfg.p_spurious_timeout = 90, 1 => cfg.p_spurious_ready = 90, 2 => { cfg.p_eintr = 85; cfg.max_interrupts = 6 + rng.below(5) as u32; } _ => {} }
    let span = t.max(1);
    let kbd_end_at = if rng.chance(1, 8) { Some(rng.below(span as usize + 1) as u64) } else { None };
    let tab_end_at = if has_tablet && rng.chance(1, 16) { Some(rng.below(span as usize + 1) as u64) } else { None };
    let case = CaseB { layout, layout_name: name, kbd, tab, has_tablet, cfg, tape: vec![], fail_at: None, extra_ticks: rng.below(6) as u32, kbd_end_at, tab_end_at, hybrid: self.hybrid, write_fault: None, read_fault: None, sysread_fault: None, syswrite_fault: None, syswrite_short: None, poll_fault: None, syspoll: self.hybrid && (self.force_syspoll || rng.chance(1, 2)) };
    // one hybrid run in eight: a write(2) on the virtual keyboard fails at some point, for good or for a moment
    let mut case = case;
    if self.hybrid && !self.write_faults && rng.chance(1, 8) { case.syswrite_fault = Some((rng.below(30), [0u32, 0, 1, 1, 2, 3][rng.below(6)], rng.below(4) as u8)); }
    case
  }
}

fn run_b(case: &CaseB, record: Option<u64>) -> Result<Outcome, String> {
  let c = case.clone();
  if case.hybrid {
    match catch_unwind(AssertUnwindSafe(|| { let mut bl = crate::wiresim::PipeLayer::new(c.has_tablet); let o = execute(&c, record, Some(&mut bl)); o })) { Ok(o) => Ok(o), Err(e) => Err(panic_msg(&e)) }
  } else {
    match catch_unwind(AssertUnwindSafe(|| execute(&c, record, None))) { Ok(o) => Ok(o), Err(e) => Err(panic_msg(&e)) }
  }
}

/// Disagreements between the real driver on pipes and the simulated devices belong to the byte
/// layer (C18) and, for the real driver's poll/read mapping, to C10.
/// A message marked "[driver]" is about RealDriver's own decisions (which device is ready, what an
/// errno means): C10's business, not the byte format's.
fn hybrid_label(en: &EnB, msg: &str) -> Option<&'static str> {
  // counted, not judged (see worlde.rs)
  if msg.starts_with("[partial-step]") { return None; }
  let driver_only = msg.starts_with("[driver]");
  // the real driver not telling the loop about the tablet switch means tablet mode is not entered "immediately"
  // ... and so does a tablet reader that loses, invents or garbles a switch event
  let tablet_missed = msg.starts_with("[driver][tablet]") || msg.starts_with("[driver] [tablet]") || msg.starts_with("[tablet]");
  // the real driver waiting longer than the loop asked, or reporting a time-out before the time has passed, is the timer's business
  let timer = msg.starts_with("[driver][timer]");
  if en.c18 && !driver_only { Some("C18-hybrid") } else if en.c11 && timer { Some("C11-hybrid") } else if en.c09 && timer { Some("C09-hybrid") } else if en.c10 { Some("C10-hybrid") } else if en.c12 && tablet_missed { Some("C12-hybrid") } else { None }
}

/// The first noted disagreement that is the enabled property's business.
pub fn hybrid_verdict(en: &EnB, o: &Outcome) -> Option<Violation> {
  for m in o.byte_error.iter().chain(o.byte_notes.iter()) { if let Some(lab) = hybrid_label(en, m) { return Some(Violation::new(lab, o.trace.len(), m.clone())); } }
  None
}

/// Execute in replay mode and evaluate the enabled projection.
pub fn replay_b(case: &CaseB, en: &EnB, obs: &mut ObsB) -> Result<Option<Violation>, String> {
  let o = run_b(case, None)?;
  if std::env::var("VERIF_DUMP_TRACE").is_ok() { for (i, it) in o.trace.iter().enumerate() { eprintln!("  trace[{}] {}", i, item_str(it)); } eprintln!("  result {:?} notes {:?} {:?}", o.result, o.byte_error, o.byte_notes); }
  let l = case.layout.clone();
  let en2 = *en;
  let r = catch_unwind(AssertUnwindSafe(|| check_trace(&l, &o.trace, &o.result, &en2, obs))).map_err(|e| format!("reference loop panicked: {}", panic_msg(&e)))?;
  if r.is_none() { if let Some(v) = hybrid_verdict(en, &o) { return Ok(Some(v)); } }
  Ok(r)
}

/// Minimise a failing world-B case (same violation class and cause must persist).
pub fn minimise_b(case: &CaseB, en: &EnB, label: &str, cause: &str) -> (CaseB, Violation, u64) {
  let mut best = case.clone();
  let mut execs = 0u64;
  let budget = 2500u64;
  let same = |c: &CaseB, execs: &mut u64| -> Option<Violation> {
    *execs += 1;
    let mut o = ObsB::default();
    match replay_b(c, en, &mut o) { Ok(Some(v)) if v.label == label && v.cause == cause => Some(v), _ => None }
  };
  let mut cur = match same(&best, &mut execs) { Some(v) => v, None => return (best, Violation::new(label, 0, "not reproducible during minimisation".into()), execs) };
  macro_rules! attempt { ($c:expr) => {{ let c = $c; if let Some(v) = same(&c, &mut execs) { best = c; cur = v; true } else { false } }}; }
  loop {
    let mut progress = false;
    // remove all schedule faults at once, then kind by kind
    { let mut c = best.clone(); c.tape = vec![]; if c.tape != best.tape && attempt!(c) { progress = true; } }
    for kind in 0..5 {
      let mut c = best.clone();
      let f = match kind { 0 => &mut c.cfg.p_eintr, 1 => &mut c.cfg.p_spurious_timeout, 2 => &mut c.cfg.p_spurious_ready, 3 => &mut c.cfg.p_latency, _ => &mut c.cfg.p_oversleep };
      if *f != 0 { *f = 0; if attempt!(c) { progress = true; } }
    }
    if best.kbd_end_at.is_some() { let mut c = best.clone(); c.kbd_end_at = None; if attempt!(c) { progress = true; } }
    if best.tab_end_at.is_some() { let mut c = best.clone(); c.tab_end_at = None; if attempt!(c) { progress = true; } }
    if best.hybrid { let mut c = best.clone(); c.hybrid = false; if attempt!(c) { progress = true; } }
    // the system-call level extras, one at a time
    if best.syspoll { let mut c = best.clone(); c.syspoll = false; c.poll_fault = None; if attempt!(c) { progress = true; } }
    if best.syswrite_short.is_some() { let mut c = best.clone(); c.syswrite_short = None; if attempt!(c) { progress = true; } }
    if let Some((k, count, kind)) = best.syswrite_fault { if count != 0 { let mut c = best.clone(); c.syswrite_fault = Some((k, 0, kind)); if attempt!(c) { progress = true; } } }
    if let Some((k, count, kind)) = best.syswrite_fault { if kind != 1 { let mut c = best.clone(); c.syswrite_fault = Some((k, count, 1)); if attempt!(c) { progress = true; } } }
    while best.extra_ticks > 0 && execs < budget { let mut c = best.clone(); c.extra_ticks -= 1; if attempt!(c) { progress = true; } else { break; } }
    // delete arrivals (from the end)
    let mut i = best.kbd.len();
    while i > 0 && execs < budget { i -= 1; let mut c = best.clone(); c.kbd.remove(i); if attempt!(c) { progress = true; } }
    let mut i = best.tab.len();
    while i > 0 && execs < budget { i -= 1; let mut c = best.clone(); c.tab.remove(i); if attempt!(c) { progress = true; } }
    if best.tab.is_empty() && best.has_tablet { let mut c = best.clone(); c.has_tablet = false; c.tab_end_at = None; if attempt!(c) { progress = true; } }
    // zero tape entries in blocks, then singly
    let mut block = (best.tape.len() / 2).max(1);
    while block >= 1 && execs < budget {
      let mut start = 0;
      while start < best.tape.len() && execs < budget {
        let end = (start + block).min(best.tape.len());
        if best.tape[start..end].iter().any(|v| *v != 0) { let mut c = best.clone(); for v in &mut c.tape[start..end] { *v = 0; } if attempt!(c) { progress = true; } }
        start = end;
      }
      if block == 1 { break; }
      block /= 2;
    }
    // delete mappings, then keys inside mappings
    let mut i = 0;
    while i < best.layout.mappings.len() && execs < budget { let mut c = best.clone(); c.layout.mappings.remove(i); if attempt!(c) { progress = true; } else { i += 1; } }
    for mi in 0..best.layout.mappings.len() {
      for field in 0..4 {
        let mut ki = 0;
        loop {
          if execs >= budget { break; }
          let mut c = best.clone();
          let m = &mut c.layout.mappings[mi];
          let removed = match field {
            0 => { if m.from.len() > 1 && ki < m.from.len() - 1 { m.from.remove(ki); true } else { false } }
            1 => { if ki < m.to.len() { m.to.remove(ki); true } else { false } }
            2 => { if ki < m.absorbing.len() { m.absorbing.remove(ki); true } else { false } }
            _ => { match &mut m.repeat { Repeat::Special { keys, .. } => { if ki < keys.len() { keys.remove(ki); true } else { false } } _ => false } }
          };
          if !removed { break; }
          if attempt!(c) { progress = true; } else { ki += 1; }
        }
      }
    }
    // shrink times: round arrivals to whole milliseconds, then compress gaps
    { let mut c = best.clone(); for (t, _) in c.kbd.iter_mut() { *t = *t / 1000 * 1000; } for (t, _) in c.tab.iter_mut() { *t = *t / 1000 * 1000; }
      if (c.kbd != best.kbd || c.tab != best.tab) && execs < budget && attempt!(c) { progress = true; } }
    for i in 0..best.kbd.len() {
      if execs >= budget { break; }
      let prev = if i == 0 { 0 } else { best.kbd[i - 1].0 };
      let gap = best.kbd[i].0 - prev;
      if gap == 0 { continue; }
      for new_gap in [0u64, gap / 2] {
        if new_gap >= gap { continue; }
        let mut c = best.clone();
        let delta = gap - new_gap;
        for j in i..c.kbd.len() { c.kbd[j].0 -= delta; }
        for (t, _) in c.tab.iter_mut() { if *t >= best.kbd[i].0 { *t -= delta; } }
        if let Some(e) = c.kbd_end_at.as_mut() { if *e >= best.kbd[i].0 { *e -= delta; } }
        if let Some(e) = c.tab_end_at.as_mut() { if *e >= best.kbd[i].0 { *e -= delta; } }
        if attempt!(c) { progress = true; break; }
      }
    }
    if !progress || execs >= budget { break; }
  }
  best.layout_name = format!("{} (minimised)", case.layout_name);
  (best, cur, execs)
}

impl Campaign for LoopCampaign {
  fn name(&self) -> String { format!("loopsim-{}{}{}{}", match self.source { SourceB::Shipped => "shipped", SourceB::Random => "random" }, if self.sweep { "-sweep" } else { "" }, if self.write_faults { "-writefault" } else { "" }, if self.force_syspoll { "-syspoll" } else if self.hybrid { "-hybrid" } else { "" }) }
  fn world(&self) -> &'static str { "B" }
  fn runs(&self, thorough: bool) -> u64 { if thorough { self.thorough_runs } else { self.quick_runs } }
  fn declare(&self, acc: &mut Acc) {
    for f in ["signal_interrupts_poll", "spurious_timeout_idle", "spurious_readiness", "io_latency_in_call", "stall_of_20ms_to_2s_inside_one_call", "timer_oversleep", "keyboard_unplugged", "tablet_switch_unplugged", "device_order_flipped", "arrival_during_drain", "backoff_sleep"] { acc.declare_fault(f); }
    if self.sweep { acc.declare_fault("io_error_in_driver_call"); }
    if self.write_faults { for f in ["os_write_eagain_under_real_writer", "os_write_epipe_under_real_writer", "os_write_ebadf_under_real_writer", "os_read_ebadf_under_real_driver"] { acc.declare_fault(f); } }
    if self.hybrid { for f in ["os_write_eagain_at_nth_write_syscall", "os_write_eio_at_nth_write_syscall", "os_write_eintr_at_nth_write_syscall"] { acc.declare_fault(f); } }
    if self.hybrid { if !self.force_syspoll { acc.declare_probe("real_driver_polls_cross_checked"); } acc.declare_probe("polls_through_the_shipped_real_driver_poll"); acc.declare_probe("wait_syscall_timed_out_in_simulated_kernel"); acc.declare_fault("wait_syscall_interrupted_eintr"); acc.declare_fault("wait_syscall_fabricated_readiness"); acc.declare_fault("wait_syscall_stale_edge_dropped"); }
    if self.write_faults { acc.declare_fault("os_read_eio_from_nth_read_syscall_under_real_driver"); acc.declare_fault("os_read_eio_at_nth_read_syscall_only_transient"); for f in ["os_poll_ebadf_under_real_driver", "os_poll_einval_under_real_driver", "os_poll_efault_under_real_driver"] { acc.declare_fault(f); } }
    acc.declare_probe("wakeup_with_two_or_more_events"); acc.declare_probe("both_devices_ready_in_one_wakeup");
    if self.property == "C11" || self.property == "C12" || self.property == "C10" { acc.declare_probe("repeat_chords_sent"); acc.declare_probe("timer_ticks"); }
    if self.property == "C11" || self.property == "C09" { for p in ["chord_while_keys_held", "chord_with_repeat_key_already_held", "timer_disarmed_by_key_event", "ignored_event_while_timer_armed", "poll_with_overdue_timer"] { acc.declare_probe(p); } }
    if self.property == "C12" || self.property == "C06" { for p in ["tablet_on_while_keys_held", "tablet_on_while_timer_armed", "keyboard_reads_in_tablet_mode"] { acc.declare_probe(p); } }
  }
  fn run(&self, seed: u64, idx: u64, ctx: &mut Ctx) -> RunResult {
    let mut case = self.generate(seed, ctx.thorough);
    let rec_seed = crate::rng::mix(seed, 0x7a9e);
    let out = match run_b(&case, Some(rec_seed)) {
      Ok(o) => o,
      Err(p) => { return RunResult { failure: None, nontrivial: false, case_hash: case.hash(), state_hashes: vec![], sample: None, digest: 0, sut_panic: Some(p), harness_error: None, evals: 1 }; }
    };
    case.tape = out.tape.clone();
    let mut harness_error = None;
    // record and replay of the same case agree exactly when the tree under test is deterministic
    // (it is, unchanged: tools/determinism.sh, ./check selftest). A changed tree that is not — one
    // that walks a randomly seeded hash table, say — is still judged run by run on what it did;
    // the disagreement is counted and reported, it is not a reason to refuse a verdict.
    let mut soft_mismatch = 0u64;
    if idx % 32 == 0 {
      match run_b(&case, None) { Ok(o2) => { if o2.digest != out.digest { soft_mismatch += 1; } } Err(_) => { soft_mismatch += 1; } }
    }
    let mut obs = ObsB::default();
    let acc = &mut *ctx.acc;
    acc.probe_n("pauses_of_three_seconds_or_more_between_key_events", case.kbd.windows(2).filter(|w| w[1].0 - w[0].0 >= 3_000_000).count() as u64);
    let mut tally = |o: &Outcome, acc: &mut Acc| {
      let s = &o.stats;
      acc.fault("signal_interrupts_poll", s.eintr); acc.fault("spurious_timeout_idle", s.spurious_timeout); acc.fault("spurious_readiness", s.spurious_ready);
      acc.fault("io_latency_in_call", s.latency); acc.fault("stall_of_20ms_to_2s_inside_one_call", s.stalls_in_call); acc.fault("timer_oversleep", s.oversleep); acc.fault("keyboard_unplugged", s.kbd_unplugged); acc.fault("tablet_switch_unplugged", s.tab_unplugged);
      acc.fault("io_error_in_driver_call", s.io_error); acc.fault("os_write_eagain_under_real_writer", s.os_write_fault[0]); acc.fault("os_write_epipe_under_real_writer", s.os_write_fault[1]); acc.fault("os_write_ebadf_under_real_writer", s.os_write_fault[2]); acc.fault("os_read_ebadf_under_real_driver", s.os_read_fault); acc.fault("os_read_enodev_unplug_under_real_driver", s.os_enodev); acc.fault("hangup_on_unplug_cross_checked_against_real_poll", s.hangups_cross_checked);
      acc.probe_n("polls_through_the_shipped_real_driver_poll", s.sys_polls_through_real_driver); acc.probe_n("wait_syscall_timed_out_in_simulated_kernel", s.sys_wait_timeouts); acc.probe_n("wait_syscall_sub_millisecond_timeout_truncated_by_driver", s.sys_subms_truncated);
      acc.fault("wait_syscall_interrupted_eintr", s.sys_wait_eintr); acc.fault("wait_syscall_fabricated_readiness", s.sys_fabricated_ready); acc.fault("wait_syscall_stale_edge_dropped", s.sys_stale_dropped);
      acc.fault("os_read_eio_from_nth_read_syscall_under_real_driver", s.os_sysread_fault);
      acc.fault("os_read_eio_at_nth_read_syscall_only_transient", s.os_sysread_once);
      acc.fault("os_write_eagain_at_nth_write_syscall", s.os_syswrite_fault[0]); acc.fault("os_write_eio_at_nth_write_syscall", s.os_syswrite_fault[1]); acc.fault("os_write_enospc_at_nth_write_syscall", s.os_syswrite_fault[2]); acc.fault("os_write_eintr_at_nth_write_syscall", s.os_syswrite_fault[3]);
      acc.count("busy_answered_from_an_earlier_eagain_with_no_read_since_the_event_was_written", s.busy_from_remembered_eagain); acc.probe_n("failed_write_left_partial_frame_on_device", s.syswrite_partial_frames); acc.probe_n("failed_write_retried_by_writer_and_delivered_once", s.syswrite_retried_ok);
      acc.fault("os_poll_ebadf_under_real_driver", s.os_poll_fault[0]); acc.fault("os_poll_einval_under_real_driver", s.os_poll_fault[1]); acc.fault("os_poll_efault_under_real_driver", s.os_poll_fault[2]);
      acc.probe_n("real_driver_polls_cross_checked", s.real_polls_compared); acc.fault("device_order_flipped", s.order_flipped); acc.fault("arrival_during_drain", s.arrival_during_drain); acc.fault("backoff_sleep", s.backoff_sleeps);
      acc.probe_n("wakeup_with_two_or_more_events", s.multi_event_wakeups); acc.probe_n("both_devices_ready_in_one_wakeup", s.both_devices_ready); acc.probe_n("wakeup_with_sixteen_or_more_events", s.max_events_one_wakeup);
      acc.count("steps", o.trace.len() as u64); acc.count("sim_us", o.sim_us); acc.count("backoff_slept_us", o.slept_us); acc.count("trace_cap_hit", s.trace_cap_hit);
    };
    tally(&out, acc);
    acc.count("runs_not_replaying_exactly", soft_mismatch);
    let l = case.layout.clone(); let en = self.en;
    let mut verdict: Option<Violation> = match catch_unwind(AssertUnwindSafe(|| check_trace(&l, &out.trace, &out.result, &en, &mut obs))) {
      Ok(v) => v,
      Err(e) => { harness_error = Some(format!("reference loop panicked: {}", panic_msg(&e))); None }
    };
    if verdict.is_none() { verdict = hybrid_verdict(&self.en, &out); }
    let mut fail_case = case.clone();
    let mut state_hashes = vec![obs.shape];
    let mut digest = out.digest;
    let mut evaluations_extra = 0u64;
    if self.sweep && verdict.is_none() {
      // every driver call of this schedule fails in turn
      for k in 0..out.calls {
        let mut ck = case.clone(); ck.fail_at = Some(k);
        match run_b(&ck, None) {
          Ok(ok) => {
            evaluations_extra += 1;
            tally(&ok, acc);
            let mut o2 = ObsB::default();
            let v = match catch_unwind(AssertUnwindSafe(|| check_trace(&l, &ok.trace, &ok.result, &en, &mut o2))) { Ok(v) => v, Err(e) => { harness_error = Some(format!("reference loop panicked: {}", panic_msg(&e))); None } };
            state_hashes.push(o2.shape);
            digest = crate::rng::mix(digest, ok.digest);
            if ok.stats.io_error == 0 { acc.count("runs_not_replaying_exactly", 1); }
            if let Some(v) = v { verdict = Some(v); fail_case = ck; break; }
          }
          Err(p) => { acc.count("sut_panics_in_sweep", 1); }
        }
      }
      acc.count("single_fault_executions", evaluations_extra);
      acc.count("swept_schedules", 1);
    }
    if self.write_faults && verdict.is_none() {
      // every write of this schedule fails in turn underneath the real writer, three errno kinds
      let n_sends = out.trace.iter().filter(|it| matches!(it, Item::Send { .. })).count();
      'outer: for k in 0..n_sends {
        for kind in 0..3u8 {
          let mut ck = case.clone(); ck.write_fault = Some((k, kind));
          match run_b(&ck, None) {
            Ok(ok) => {
              evaluations_extra += 1;
              tally(&ok, acc);
              let mut o2 = ObsB::default();
              let v = match catch_unwind(AssertUnwindSafe(|| check_trace(&l, &ok.trace, &ok.result, &en, &mut o2))) { Ok(v) => v, Err(e) => { harness_error = Some(format!("reference loop panicked: {}", panic_msg(&e))); None } };
              state_hashes.push(o2.shape);
              digest = crate::rng::mix(digest, ok.digest);
              if ok.stats.os_write_fault.iter().sum::<u64>() == 0 { acc.count("runs_not_replaying_exactly", 1); }
              if let Some(v) = v { verdict = Some(v); fail_case = ck; break 'outer; }
            }
            Err(p) => { acc.count("sut_panics_in_sweep", 1); }
          }
        }
      }
      // every read of this schedule fails in turn underneath the real driver (EBADF)
      let n_k = out.trace.iter().filter(|it| matches!(it, Item::NextK { .. })).count();
      let n_t = out.trace.iter().filter(|it| matches!(it, Item::NextT { .. })).count();
      if verdict.is_none() {
        'outer2: for (n, tablet) in [(n_k, false), (n_t, true)] {
          for k in 0..n {
            let mut ck = case.clone(); ck.read_fault = Some((k, tablet));
            match run_b(&ck, None) {
              Ok(ok) => {
                evaluations_extra += 1;
                tally(&ok, acc);
                let mut o2 = ObsB::default();
                let v = match catch_unwind(AssertUnwindSafe(|| check_trace(&l, &ok.trace, &ok.result, &en, &mut o2))) { Ok(v) => v, Err(e) => { harness_error = Some(format!("reference loop panicked: {}", panic_msg(&e))); None } };
                state_hashes.push(o2.shape);
                digest = crate::rng::mix(digest, ok.digest);
                if ok.stats.os_read_fault == 0 { acc.count("runs_not_replaying_exactly", 1); }
                if let Some(v) = v { verdict = Some(v); fail_case = ck; break 'outer2; }
              }
              Err(p) => { acc.count("sut_panics_in_sweep", 1); }
            }
          }
        }
      }
      // from every read(2) call of this schedule on, the reads of that device fail (EIO): unlike the
      // sweep above, which breaks the descriptor between two calls of the driver, this one lands in
      // the middle of whatever the reader does inside one call (skipping records, resynchronising)
      if verdict.is_none() {
        'outer4: for (n, tablet) in [(out.stats.sys_reads_kbd as usize, false), (out.stats.sys_reads_tab as usize, true)] {
          // every call number twice: the reads fail from that call on (the descriptor is dead), or
          // only that one call fails and the next ones work again (a transient failure, which the loop
          // must report just the same: EIO is not EINTR). One call number beyond the schedule's own
          // count is included, for a tree that reads more often than the unchanged one.
          for kk in 0..2 * (n + 1) {
            let k = kk / 2; let once = kk % 2 == 1;
            if !once && k >= n { continue; }
            let mut ck = case.clone(); ck.sysread_fault = Some((if once { crate::loopsim::SYSREAD_ONCE + k } else { k }, tablet));
            match run_b(&ck, None) {
              Ok(ok) => {
                evaluations_extra += 1;
                tally(&ok, acc);
                let mut o2 = ObsB::default();
                let v = match catch_unwind(AssertUnwindSafe(|| check_trace(&l, &ok.trace, &ok.result, &en, &mut o2))) { Ok(v) => v, Err(e) => { harness_error = Some(format!("reference loop panicked: {}", panic_msg(&e))); None } };
                state_hashes.push(o2.shape);
                digest = crate::rng::mix(digest, ok.digest);
                if ok.stats.os_sysread_fault == 0 && k < n { acc.count("sysread_faults_not_reached_on_reexecution", 1); }
                if let Some(v) = v { verdict = Some(v); fail_case = ck; break 'outer4; }
              }
              Err(_) => { acc.count("sut_panics_in_sweep", 1); }
            }
          }
        }
      }
      // from every write(2) call of this schedule on, the writes fail (queue full / I/O error), or one call is interrupted
      if verdict.is_none() {
        'outer5: for k in 0..out.stats.sys_writes as usize {
          // the last one: the call before transfers only one record (a short count, which uinput never
          // produces) and what follows it fails — a writer that completes short writes must report that
          // failure too. (An interrupted write that is retried and delivers the batch once is accepted.)
          // (kinds 4-7 are kinds 0-3 in C20 mode: a hidden failure that loses the batch is a failure; three
          // and six interruptions in a row: a bounded retry that runs out must report it)
          for (count, kind, short) in [(0u32, 4u8, None), (0, 5, None), (1, 7, None), (3, 7, None), (6, 7, None), (2, 4, None), (0, 5, Some(24usize))] {
            if short.is_some() && k == 0 { continue; }
            let mut ck = case.clone(); ck.syswrite_fault = Some((k, count, kind)); ck.syswrite_short = short;
            match run_b(&ck, None) {
              Ok(ok) => {
                evaluations_extra += 1;
                tally(&ok, acc);
                let mut o2 = ObsB::default();
                let v = match catch_unwind(AssertUnwindSafe(|| check_trace(&l, &ok.trace, &ok.result, &en, &mut o2))) { Ok(v) => v, Err(e) => { harness_error = Some(format!("reference loop panicked: {}", panic_msg(&e))); None } };
                state_hashes.push(o2.shape);
                digest = crate::rng::mix(digest, ok.digest);
                if ok.stats.os_syswrite_fault.iter().sum::<u64>() == 0 { acc.count("syswrite_faults_not_reached_on_reexecution", 1); }
                if let Some(v) = v { verdict = Some(v); fail_case = ck; break 'outer5; }
              }
              Err(_) => { acc.count("sut_panics_in_sweep", 1); }
            }
          }
        }
      }
      // every wait system call of this schedule fails in turn underneath the real driver's poll
      if verdict.is_none() && case.syspoll {
        'outer3: for k in 0..out.stats.sys_waits as usize {
          for kind in 0..3u8 {
            let mut ck = case.clone(); ck.poll_fault = Some((k, kind));
            match run_b(&ck, None) {
              Ok(ok) => {
                evaluations_extra += 1;
                tally(&ok, acc);
                let mut o2 = ObsB::default();
                let v = match catch_unwind(AssertUnwindSafe(|| check_trace(&l, &ok.trace, &ok.result, &en, &mut o2))) { Ok(v) => v, Err(e) => { harness_error = Some(format!("reference loop panicked: {}", panic_msg(&e))); None } };
                state_hashes.push(o2.shape);
                digest = crate::rng::mix(digest, ok.digest);
                if ok.stats.os_poll_fault.iter().sum::<u64>() == 0 { acc.count("runs_not_replaying_exactly", 1); }
                if let Some(v) = v { verdict = Some(v); fail_case = ck; break 'outer3; }
              }
              Err(_) => { acc.count("sut_panics_in_sweep", 1); }
            }
          }
        }
      }
      acc.count("os_fault_executions", evaluations_extra);
    }
    acc.probe_n("repeat_chords_sent", obs.chords); acc.probe_n("timer_ticks", out.stats.timer_ticks);
    if self.property == "C11" || self.property == "C09" {
      acc.probe_n("chord_while_keys_held", obs.chords_while_held); acc.probe_n("chord_with_repeat_key_already_held", obs.chord_key_held);
      acc.probe_n("timer_disarmed_by_key_event", obs.timer_disarmed_by_event); acc.probe_n("ignored_event_while_timer_armed", obs.nochange_while_armed); acc.probe_n("poll_with_overdue_timer", obs.overdue_polls);
    }
    if self.property == "C12" || self.property == "C06" { acc.probe_n("tablet_on_while_keys_held", obs.tablet_on_while_held); acc.probe_n("tablet_on_while_timer_armed", obs.tablet_on_while_timer); acc.probe_n("keyboard_reads_in_tablet_mode", obs.reads_in_tablet_mode); }
    acc.count("other_property_disagreements", obs.other_property_disagreements);
    let nt = match self.property { "C09" => obs.timer_disarmed_by_event > 0 || obs.nochange_while_armed > 0, "C06" => obs.nt_c12, "C10" => obs.nt_c10, "C11" => obs.nt_c11, "C12" => obs.nt_c12, "C19" => obs.nt_c19, "C20" => (self.sweep && out.calls >= 4) || (self.write_faults && out.trace.iter().any(|it| matches!(it, Item::Send { .. }))), "C18" => obs.sends > 0, _ => true };
    let hash = case.hash();
    let sample = if ctx.want_sample { Some(json!({"case": case.json(), "trace_head": out.trace.iter().take(30).map(item_str).collect::<Vec<_>>(), "result": format!("{:?}", out.result)})) } else { None };
    let failure = verdict.map(|v| {
      let en = self.en; let c2 = fail_case.clone(); let label = v.label.clone(); let cause = v.cause.clone();
      RawFailure { violation: v, case: fail_case.json(), shrink: Box::new(move || { let (m, mv, n) = minimise_b(&c2, &en, &label, &cause); (m.json(), mv, n) }) }
    });
    RunResult { failure, nontrivial: nt, case_hash: hash, state_hashes, sample, digest, sut_panic: None, harness_error, evals: 1 + evaluations_extra }
  }
  fn replay(&self, case: &Value) -> Result<Option<Violation>, String> {
    let c = CaseB::from_json(case.get("case").unwrap_or(case))?;
    let mut obs = ObsB::default();
    replay_b(&c, &self.en, &mut obs)
  }
  fn rule(&self) -> String {
    format!("layout = {}; key history as in world A (length 2-18 quick, 2-40 thorough) turned into arrivals with gaps drawn from {{0 (same batch), <5 ms, 20-100 ms, 150-550 ms}}; tablet on/off events sprinkled in{}; schedule/fault choices (order of the two devices in one wake-up, latency inside a call, signal interruption at an arbitrary instant with simulated 4 s/8 s back-off, spurious time-out while idle, spurious readiness, timer oversleep <=2 ms, device removal at an arbitrary time, 0-5 extra timer ticks) enabled swarm-style and recorded on a decision tape{}; a case is distinct by hash of (layout, arrivals, tape, fault point); non-trivial = {}",
      match self.source { SourceB::Shipped => "built-in or README layout", SourceB::Random => "random small layout (Special repeats with delay 0-200 ms, interval 1-60 ms)" },
      if self.force_tablet { " (tablet switch always present)" } else { " (tablet switch present in 1/3 of the runs)" },
      if self.sweep { "; then the schedule is re-executed once per driver call with exactly that call (register, poll, read or send) returning an I/O error" } else if self.write_faults { "; bytes go through the real reader/writer on pipes, and the schedule is re-executed once per send x {EAGAIN (queue full), EPIPE (consumer gone), EBADF} with the OS-level write under the real DevInputWriter failing, once per keyboard/tablet read with the read failing (EBADF), and - in the runs whose poll goes through the shipped RealDriver::poll - once per wait system call x {EBADF, EINVAL, EFAULT}" } else { "" },
      match self.property {
        "C10" => "a wake-up delivered >=2 events, or readiness for both devices, or was preceded by an interruption/spurious time-out",
        "C11" => ">=2 repeat chords in the run, or a chord while another key was held",
        "C09" => "a key event cancelled an armed timer, or an ignored event arrived while a timer was armed",
        "C12" | "C06" => "tablet-on was read while >=1 key was held or a timer was armed",
        "C19" => "a mapper batch of >=3 events was written",
        "C20" => "the swept schedule has >=4 driver calls",
        "C18" => "at least one batch went through the real writer",
        _ => "always" })
  }
  fn components(&self) -> Value {
    let mut real = vec!["remapping_loop::do_remapping_loop_one_device (through hook H1)", "key_transforms::Mapper inside the loop", "JSON parser + converter for the layout"];
    let mut stub = vec!["keyboard and tablet-switch devices (queues with edge-triggered readiness)", "poll (discrete-event clock, jumps to next arrival/deadline)", "Instant::now / thread::sleep (simulated clock via hook H1)", "uinput consumer (records batches)"];
    if self.hybrid { real.extend(["remapping_loop::RealDriver on pipes (hook H3): register_poll (mio), poll with zero timeout (token -> device mapping, cross-checked at every simulated wake-up), next_keyboard / next_tablet / send (errno mapping)", "dev_input_rw::DevInputReader::next on a pipe", "tablet_mode_switch_reader::TabletModeSwitchReader::next on a pipe", "dev_input_rw::DevInputWriter::send on a pipe (hook H2)"]); stub.push("kernel evdev/uinput nodes (non-blocking pipes the simulator fills and drains)"); }
    json!({"real": real, "stub": stub, "trusted": ["RefLoop (loopsim.rs check_trace) with its own real Mapper"], "not_run": [if self.hybrid { "RealDriver::poll with a non-zero timeout (real waiting), ENODEV -> End (a pipe cannot produce it)" } else { "RealDriver (mio registration, errno mapping)" }, "DevInputWriter::open (uinput ioctls)", "multi-device thread spawners"]})
  }
}
