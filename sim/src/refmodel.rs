// Reference control model R: defines the words the property statements use — "fires",
// "in effect", "considers held", "acts on" — and nothing else. It contains no outputs.
// For layouts without absorbing mappings it is exactly C03's rule.

use crate::keys::*;
use crate::common::is_mod;

#[derive(Clone, Debug, Default)]
pub struct Ref {
  /// keys the mapper considers held
  pub counted: Vec<KeyCode>,
  /// indices (into layout.mappings) of mappings in effect, in activation order
  pub in_effect: Vec<usize>,
  /// absorbed modifiers (hidden from later chords until pressed again)
  pub absorbed: Vec<KeyCode>,
  /// the trigger key whose re-press still sees the absorbed modifiers
  pub abs_trigger: Option<KeyCode>,
}

#[derive(Debug, Clone, PartialEq)]
pub enum RefOutcome {
  /// press of a counted key / release of an uncounted key
  Ignored,
  Fired(usize),
  PassThrough,
  /// a mapping in effect mentions the key: nothing is emitted
  Swallowed,
  Release,
}

pub fn key_producing(m: &Mapping) -> bool { m.to.last().map(|k| !is_mod(k)).unwrap_or(false) }

impl Ref {
  fn flush_absorbed(&mut self, l: &Layout) {
    let abs: Vec<KeyCode> = self.absorbed.drain(..).collect();
    self.abs_trigger = None;
    for k in abs {
      self.in_effect.retain(|i| !l.mappings[*i].from.contains(&k));
      self.counted.retain(|c| *c != k);
    }
  }

  /// release-all: every counted key is released
  pub fn reset(&mut self) {
    self.counted.clear();
    self.in_effect.clear();
  }

  pub fn step(&mut self, l: &Layout, ev: &Event) -> RefOutcome {
    match ev {
      Pressed(k) => {
        if self.counted.contains(k) { return RefOutcome::Ignored; }
        self.absorbed.retain(|a| a != k);
        let hidden: Vec<KeyCode> = if self.abs_trigger == Some(*k) { vec![] } else { self.absorbed.clone() };
        let mut fired = None;
        for (i, m) in l.mappings.iter().enumerate().rev() {
          if m.from.last() == Some(k) && m.from.iter().all(|t| t == k || (self.counted.contains(t) && !hidden.contains(t))) {
            fired = Some(i);
            break;
          }
        }
        let out = if let Some(i) = fired {
          let m = &l.mappings[i];
          // absorbed modifiers apply to one keystroke: another keystroke that produces a key, or
          // that absorbs modifiers of its own, flushes them (unless it is the same trigger again)
          if (key_producing(m) || !m.absorbing.is_empty()) && self.abs_trigger != Some(*k) { self.flush_absorbed(l); }
          for a in &m.absorbing { if !self.absorbed.contains(a) { self.absorbed.push(*a); } }
          if !m.absorbing.is_empty() { self.abs_trigger = Some(*k); }
          self.in_effect.push(i);
          RefOutcome::Fired(i)
        } else if self.in_effect.iter().any(|i| l.mappings[*i].from.contains(k) || l.mappings[*i].to.contains(k)) {
          RefOutcome::Swallowed
        } else {
          if !is_mod(k) { self.flush_absorbed(l); }
          RefOutcome::PassThrough
        };
        self.counted.push(*k);
        out
      }
      Released(k) => {
        if !self.counted.contains(k) { return RefOutcome::Ignored; }
        self.in_effect.retain(|i| !l.mappings[*i].from.contains(k));
        self.counted.retain(|c| c != k);
        RefOutcome::Release
      }
    }
  }
}
