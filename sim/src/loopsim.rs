// World B — "loopsim": a discrete-event simulation around the real per-device event loop
// (do_remapping_loop_one_device, reached through hook H1). The simulated driver owns the two
// device queues with edge-triggered readiness, the clock, the back-off sleep, signals, device
// removal and I/O errors. Every choice it makes is read from a decision tape.

use crate::keys::*;
use crate::key_transforms::{Mapper, ResultingRepeat};
use crate::remapping_loop::verif_hooks::*;
use crate::common::*;
use crate::engine::Violation;
use crate::rng::{Rng, H};
use serde_json::{json, Value};
use std::collections::VecDeque;
use std::time::Duration;

pub const INJECTED: &str = "injected I/O failure";
pub const TRACE_CAP: usize = 3000;

#[derive(Clone, Debug, Default)]
pub struct FaultCfg {
  /// percent probabilities; 0 disables the kind for the run
  pub p_eintr: u32,
  pub p_spurious_timeout: u32,
  pub p_spurious_ready: u32,
  pub p_latency: u32,
  pub p_oversleep: u32,
  pub max_interrupts: u32,
}

/// sysread_fault call numbers from here on mean: only that one call fails (n - SYSREAD_ONCE)
pub const SYSREAD_ONCE: usize = 1 << 20;

#[derive(Clone, Debug)]
pub struct CaseB {
  pub layout: Layout,
  pub layout_name: String,
  /// keyboard arrivals (time in microseconds, non-decreasing)
  pub kbd: Vec<(u64, Event)>,
  /// tablet switch arrivals: true = on
  pub tab: Vec<(u64, bool)>,
  /// the tablet switch device exists (is registered with poll)
  pub has_tablet: bool,
  pub cfg: FaultCfg,
  /// every choice of the simulated driver, in the order it is consumed; exhausted => "no fault"
  pub tape: Vec<u32>,
  /// the k-th driver call returns an I/O error
  pub fail_at: Option<usize>,
  /// timer ticks allowed after the script is exhausted, before the keyboard is unplugged
  pub extra_ticks: u32,
  /// the keyboard is unplugged at this time (remaining arrivals are lost)
  pub kbd_end_at: Option<u64>,
  /// the tablet switch device goes away at this time
  pub tab_end_at: Option<u64>,
  /// route bytes through the real reader / tablet reader / writer on pipes
  pub hybrid: bool,
  /// hybrid only: the OS-level write under the k-th send of the real writer fails
  /// (kind 0 = EAGAIN, queue full; 1 = EPIPE, consumer gone; 2 = EBADF)
  pub write_fault: Option<(usize, u8)>,
  /// hybrid only: the OS-level read under the k-th next_keyboard (false) / next_tablet (true)
  /// call of the real driver fails with EBADF
  pub read_fault: Option<(usize, bool)>,
  /// hybrid only: the loop's poll goes through the shipped RealDriver::poll with the loop's own
  /// time-out; the simulated kernel answers the wait system call (epoll_wait, poll, ...) underneath
  pub syspoll: bool,
  /// hybrid only: the read(2) calls numbered n, n+1, ... on the keyboard (false) / tablet switch
  /// (true) descriptor fail with EIO — a fault in the middle of whatever the reader is doing
  pub sysread_fault: Option<(usize, bool)>,
  /// hybrid only: the write(2) calls numbered from .. from+count-1 on the virtual keyboard's
  /// descriptor fail (count 0 = all of them from `from` on); errno kind 0 = EAGAIN (queue full),
  /// 1 = EIO, 2 = ENOSPC, 3 = EINTR
  pub syswrite_fault: Option<(usize, u32, u8)>,
  /// with syswrite_fault (from, ..): the write(2) call numbered from-1 transfers only this many
  /// bytes (a short count, which uinput never produces; used by the C20 sweep only, where nothing
  /// but "a failed write ends the loop" is judged)
  pub syswrite_short: Option<usize>,
  /// syspoll only: the k-th wait system call fails (kind 0 = EBADF, 1 = EINVAL, 2 = EFAULT)
  pub poll_fault: Option<(usize, u8)>,
}

impl CaseB {
  pub fn json(&self) -> Value {
    json!({"world": "B", "layout_name": self.layout_name, "layout": layout_json(&self.layout),
      "kbd": self.kbd.iter().map(|(t, e)| json!([t, ev_str(e)])).collect::<Vec<_>>(),
      "tab": self.tab.iter().map(|(t, on)| json!([t, on])).collect::<Vec<_>>(),
      "has_tablet": self.has_tablet,
      "cfg": {"p_eintr": self.cfg.p_eintr, "p_spurious_timeout": self.cfg.p_spurious_timeout, "p_spurious_ready": self.cfg.p_spurious_ready, "p_latency": self.cfg.p_latency, "p_oversleep": self.cfg.p_oversleep, "max_interrupts": self.cfg.max_interrupts},
      "tape": self.tape, "fail_at": self.fail_at, "extra_ticks": self.extra_ticks, "kbd_end_at": self.kbd_end_at, "tab_end_at": self.tab_end_at, "hybrid": self.hybrid, "write_fault": self.write_fault.map(|(k, kind)| vec![k as u64, kind as u64]), "read_fault": self.read_fault.map(|(k, t)| json!([k, t])), "sysread_fault": self.sysread_fault.map(|(k, t)| json!([k, t])), "syswrite_fault": self.syswrite_fault.map(|(k, c, e)| vec![k as u64, c as u64, e as u64]), "syswrite_short": self.syswrite_short, "syspoll": self.syspoll, "poll_fault": self.poll_fault.map(|(k, kind)| vec![k as u64, kind as u64])})
  }
  pub fn from_json(v: &Value) -> Result<CaseB, String> {
    let layout = layout_from_json(v.get("layout").ok_or("case: no layout")?)?;
    let mut kbd = vec![];
    for a in v.get("kbd").and_then(|x| x.as_array()).ok_or("case: no kbd")? {
      kbd.push((a[0].as_u64().ok_or("case: bad time")?, ev_from(a[1].as_str().ok_or("case: bad event")?)?));
    }
    let mut tab = vec![];
    for a in v.get("tab").and_then(|x| x.as_array()).cloned().unwrap_or_default() { tab.push((a[0].as_u64().ok_or("case: bad time")?, a[1].as_bool().ok_or("case: bad tablet event")?)); }
    let c = v.get("cfg").cloned().unwrap_or(json!({}));
    let g = |k: &str| c.get(k).and_then(|x| x.as_u64()).unwrap_or(0) as u32;
    Ok(CaseB { layout, layout_name: v.get("layout_name").and_then(|x| x.as_str()).unwrap_or("").to_string(), kbd, tab,
      has_tablet: v.get("has_tablet").and_then(|x| x.as_bool()).unwrap_or(true),
      cfg: FaultCfg { p_eintr: g("p_eintr"), p_spurious_timeout: g("p_spurious_timeout"), p_spurious_ready: g("p_spurious_ready"), p_latency: g("p_latency"), p_oversleep: g("p_oversleep"), max_interrupts: g("max_interrupts") },
      tape: v.get("tape").and_then(|x| x.as_array()).map(|a| a.iter().map(|x| x.as_u64().unwrap_or(0) as u32).collect()).unwrap_or_default(),
      fail_at: v.get("fail_at").and_then(|x| x.as_u64()).map(|x| x as usize),
      extra_ticks: v.get("extra_ticks").and_then(|x| x.as_u64()).unwrap_or(0) as u32,
      kbd_end_at: v.get("kbd_end_at").and_then(|x| x.as_u64()), tab_end_at: v.get("tab_end_at").and_then(|x| x.as_u64()),
      hybrid: v.get("hybrid").and_then(|x| x.as_bool()).unwrap_or(false),
      write_fault: v.get("write_fault").and_then(|x| x.as_array()).and_then(|a| if a.len() == 2 { Some((a[0].as_u64().unwrap_or(0) as usize, a[1].as_u64().unwrap_or(0) as u8)) } else { None }),
      read_fault: v.get("read_fault").and_then(|x| x.as_array()).and_then(|a| if a.len() == 2 { Some((a[0].as_u64().unwrap_or(0) as usize, a[1].as_bool().unwrap_or(false))) } else { None }),
      sysread_fault: v.get("sysread_fault").and_then(|x| x.as_array()).and_then(|a| if a.len() == 2 { Some((a[0].as_u64().unwrap_or(0) as usize, a[1].as_bool().unwrap_or(false))) } else { None }),
      syswrite_fault: v.get("syswrite_fault").and_then(|x| x.as_array()).and_then(|a| if a.len() == 3 { Some((a[0].as_u64().unwrap_or(0) as usize, a[1].as_u64().unwrap_or(0) as u32, a[2].as_u64().unwrap_or(0) as u8)) } else { None }),
      syswrite_short: v.get("syswrite_short").and_then(|x| x.as_u64()).map(|x| x as usize),
      syspoll: v.get("syspoll").and_then(|x| x.as_bool()).unwrap_or(false),
      poll_fault: v.get("poll_fault").and_then(|x| x.as_array()).and_then(|a| if a.len() == 2 { Some((a[0].as_u64().unwrap_or(0) as usize, a[1].as_u64().unwrap_or(0) as u8)) } else { None }) })
  }
  pub fn hash(&self) -> u64 {
    let mut h = H::new(); hash_layout(&mut h, &self.layout);
    for (t, e) in &self.kbd { h.u(*t); hash_ev(&mut h, e); }
    h.u(0xEE); for (t, on) in &self.tab { h.u(*t); h.u(*on as u64); }
    h.u(0xEF); for v in &self.tape { h.u(*v as u64); }
    h.u(self.fail_at.map(|x| x as u64 + 1).unwrap_or(0)); h.u(self.extra_ticks as u64);
    h.u(self.kbd_end_at.map(|x| x + 1).unwrap_or(0)); h.u(self.tab_end_at.map(|x| x + 1).unwrap_or(0)); h.u(self.hybrid as u64); h.u(self.has_tablet as u64); h.u(self.write_fault.map(|(k, kind)| (k as u64) * 4 + kind as u64 + 1).unwrap_or(0)); h.u(self.read_fault.map(|(k, t)| (k as u64) * 2 + t as u64 + 1).unwrap_or(0));
    if let Some((k, t)) = self.sysread_fault { h.u(0x5eb); h.u(k as u64 * 2 + t as u64); }
    if let Some((k, c, e)) = self.syswrite_fault { h.u(0x5ec); h.u(k as u64); h.u(c as u64); h.u(e as u64); h.u(self.syswrite_short.map(|x| x as u64 + 1).unwrap_or(0)); }
    if self.syspoll { h.u(0x5e5); h.u(self.poll_fault.map(|(k, kind)| (k as u64) * 4 + kind as u64 + 1).unwrap_or(0)); }
    h.fin()
  }
}

#[derive(Debug, Clone, PartialEq)]
pub enum PollRes { Devices(Vec<VDevice>), TimedOut, Interrupted }

#[derive(Debug, Clone)]
pub enum Item {
  Register,
  /// `unread`: scripted events that had reached a device and had not been read when poll returned
  Poll { t_in: u64, timeout: Option<u64>, res: PollRes, t_out: u64, unread: u32 },
  /// res None + end false = Busy
  /// `phantom`: the event is not the next one of the script (the reader under test made it up,
  /// e.g. out of a record it should have skipped)
  NextK { res: Option<Event>, end: bool, t_out: u64, phantom: bool },
  NextT { res: Option<bool>, end: bool, t_out: u64, phantom: bool },
  Send { evs: Vec<Event>, t_out: u64 },
  Fail { what: &'static str },
}

pub fn item_str(it: &Item) -> String {
  match it {
    Item::Register => "register_poll".into(),
    Item::Poll { t_in, timeout, res, t_out, unread } => format!("poll(t={}us, timeout={:?}us) -> {:?} @{}us{}", t_in, timeout, res, t_out, if *unread > 0 && *res == PollRes::TimedOut { format!(" ({} arrived event(s) unread)", unread) } else { String::new() }),
    Item::NextK { res, end, t_out, phantom } => format!("next_keyboard -> {}{} @{}us", if *end { "End".to_string() } else { res.as_ref().map(ev_str).unwrap_or("Busy".into()) }, if *phantom { " (not in the script)" } else { "" }, t_out),
    Item::NextT { res, end, t_out, phantom } => format!("next_tablet -> {}{} @{}us", if *end { "End".to_string() } else { res.map(|b| if b { "On".to_string() } else { "Off".to_string() }).unwrap_or("Busy".into()) }, if *phantom { " (not in the script)" } else { "" }, t_out),
    Item::Send { evs, t_out } => format!("send {} @{}us", evs_str(evs), t_out),
    Item::Fail { what } => format!("{} -> Err({})", what, INJECTED),
  }
}

/// Decision tape: in record mode choices come from the PRNG and are appended; in replay mode they
/// are read back (0 once exhausted, which every decision site interprets as "no fault").
pub struct Tape { pub vals: Vec<u32>, pos: usize, rng: Option<Rng> }
impl Tape {
  pub fn record(seed: u64) -> Tape { Tape { vals: vec![], pos: 0, rng: Some(Rng::new(seed)) } }
  pub fn replay(vals: Vec<u32>) -> Tape { Tape { vals, pos: 0, rng: None } }
  pub fn draw(&mut self) -> u32 {
    if let Some(r) = self.rng.as_mut() { let v = (r.next() >> 16) as u32; self.vals.push(v); self.pos += 1; v }
    else { let v = self.vals.get(self.pos).cloned().unwrap_or(0); self.pos += 1; v }
  }
  /// fault with probability p percent; a zero tape entry never faults
  pub fn fault(&mut self, p: u32) -> bool { if p == 0 { return false; } let v = self.draw() % 100; v >= 100 - p.min(100) }
  pub fn below(&mut self, n: u64) -> u64 { if n == 0 { 0 } else { (self.draw() as u64) % n } }
}

#[derive(Default, Clone, Debug)]
pub struct SimStats {
  pub eintr: u64, pub spurious_timeout: u64, pub spurious_ready: u64, pub latency: u64, pub stalls_in_call: u64, pub oversleep: u64, pub io_error: u64, pub os_enodev: u64, pub stalled: u64, pub hangups_cross_checked: u64,
  pub order_flipped: u64, pub both_devices_ready: u64, pub kbd_unplugged: u64, pub tab_unplugged: u64, pub arrival_during_drain: u64,
  pub backoff_sleeps: u64, pub multi_event_wakeups: u64, pub max_events_one_wakeup: u64, pub timer_ticks: u64, pub trace_cap_hit: u64,
  pub os_write_fault: [u64; 3], pub os_read_fault: u64, pub real_polls_compared: u64,
  pub os_poll_fault: [u64; 3], pub os_sysread_fault: u64, pub os_sysread_once: u64, pub busy_from_remembered_eagain: u64, pub zero_timeout_looks: u64, pub sys_extra_devices_listed: u64, pub os_syswrite_fault: [u64; 4], pub syswrite_partial_frames: u64, pub syswrite_retried_ok: u64, pub sys_writes: u64, pub sys_reads_kbd: u64, pub sys_reads_tab: u64, pub sys_waits: u64, pub sys_wait_timeouts: u64, pub sys_wait_eintr: u64, pub sys_wait_events: u64, pub sys_stale_dropped: u64, pub sys_fabricated_ready: u64, pub sys_polls_through_real_driver: u64, pub sys_subms_truncated: u64,
}

pub trait ByteLayer {
  /// `held`: the keys held on the physical keyboard just before `e` (what a real keyboard would auto-repeat)
  fn push_kbd(&mut self, e: &Event, tape: &mut Tape, held: &[KeyCode]);
  fn push_tab(&mut self, on: bool, tape: &mut Tape);
  /// read one keyboard event through the real driver; None = Busy (EAGAIN)
  fn read_kbd(&mut self) -> Result<Option<Event>, String>;
  fn read_tab(&mut self) -> Result<Option<bool>, String>;
  /// the real driver's own answers, unfiltered (used right after an injected OS-level read failure)
  fn raw_next_keyboard(&mut self) -> Result<VNext<Event>, String>;
  fn raw_next_tablet(&mut self) -> Result<VNext<bool>, String>;
  /// write through the real writer, drain and decode what arrived on the other end
  fn send(&mut self, evs: &Vec<Event>) -> Result<Vec<Event>, String>;
  /// after a send that reported malformed bytes: the events a consumer actually sees in them
  fn take_actual(&mut self) -> Option<Vec<Event>> { None }
  /// make the next OS-level write of the real writer fail (0 EAGAIN, 1 EPIPE, 2 EBADF)
  fn sabotage_writer(&mut self, kind: u8);
  /// call the real writer and hand back its own verdict, nothing else
  fn raw_send(&mut self, evs: &Vec<Event>) -> Result<(), String>;
  /// the real driver's register_poll
  fn register(&mut self) -> Result<(), String>;
  /// the real driver's poll with a zero timeout: Some(devices) or None for TimedOut
  fn poll_now(&mut self) -> Result<Option<Vec<VDevice>>, String>;
  /// make the next OS-level read of the keyboard (false) / tablet switch (true) fail with EBADF
  fn sabotage_reader(&mut self, tablet: bool);
  /// the device is unplugged: from now on reads on its descriptor fail with ENODEV
  fn unplug(&mut self, tablet: bool);
  /// the device is unplugged: its descriptor shows a hang-up (queued records stay readable)
  fn hangup(&mut self, tablet: bool);
  /// syspoll runs: the real driver is taken out for the duration of its own `poll` call (the
  /// simulated kernel underneath feeds the pipes of this layer meanwhile) and put back afterwards
  fn take_driver(&mut self) -> Option<VerifRealDriver> { None }
  fn put_driver(&mut self, _d: VerifRealDriver) {}
  /// (keyboard, tablet switch) descriptors the real driver reads from
  fn device_fds(&self) -> (i32, i32) { (-1, -1) }
  /// the descriptor the real writer writes to
  fn uinput_fd(&self) -> i32 { -1 }
  /// everything that has arrived on the consumer's side of the virtual keyboard since the last drain
  fn drain_uinput(&mut self) -> Vec<u8> { vec![] }
}

/// what the simulated kernel answered the wait system call of the current poll
#[derive(Clone, Debug, PartialEq)]
enum KAns { Events(Vec<VDevice>), Zero, Eintr, Error }

pub struct Sim<'a> {
  pub tape: Tape,
  pub cfg: FaultCfg,
  kbd: VecDeque<(u64, Event)>,
  tab: VecDeque<(u64, bool)>,
  has_tablet: bool,
  kbd_ready: VecDeque<Event>,
  tab_ready: VecDeque<bool>,
  kbd_notify: bool,
  tab_notify: bool,
  pub trace: Vec<Item>,
  fail_at: Option<usize>,
  pub calls: usize,
  kbd_ended: bool,
  tab_ended: bool,
  kbd_end_at: Option<u64>,
  tab_end_at: Option<u64>,
  extra_ticks: u32,
  interrupts: u32,
  in_drain: bool,
  write_fault: Option<(usize, u8)>,
  read_fault: Option<(usize, bool)>,
  kbd_reads_done: usize,
  tab_reads_done: usize,
  sends_done: usize,
  hw_failed: bool,
  kbd_sabotaged: bool,
  /// read(2) calls seen on the device descriptor when each waiting event was written (hybrid runs)
  kbd_stamps: VecDeque<u32>, tab_stamps: VecDeque<u32>,
  /// a transient read(2) failure happened and has not been reported yet: how many of the events
  /// waiting in the device queue may still be handed out before the driver owes the error
  once_owed: Option<usize>,
  once_done: bool,
  kbd_hup_checked: bool, tab_hup_checked: bool,
  tab_sabotaged: bool,
  pub stats: SimStats,
  pub bytes: Option<&'a mut dyn ByteLayer>,
  pub byte_error: Option<String>,
  /// every disagreement noted (the first few), so that each property's check finds the one that is its own
  pub byte_notes: Vec<String>,
  cap: usize,
  syspoll: bool,
  poll_fault: Option<(usize, u8)>,
  sys_waits_done: usize,
  sys_asked: Option<Duration>,
  sys_answer: Option<KAns>,
  sys_stall: bool,
  script_phys: Vec<KeyCode>,
  sysread_fault: Option<(usize, bool)>,
  syswrite_fault: Option<(usize, u32, u8)>,
  syswrite_short: Option<usize>,
  /// what is held on the virtual keyboard according to the bytes that really arrived there
  out_held: Vec<KeyCode>,
}

impl<'a> Sim<'a> {
  pub fn new(case: &CaseB, tape: Tape, bytes: Option<&'a mut dyn ByteLayer>) -> Sim<'a> {
    set_sim_now_us(0);
    reset_sim_slept_us();
    Sim { tape, cfg: case.cfg.clone(), kbd: case.kbd.iter().cloned().collect(), tab: if case.has_tablet { case.tab.iter().cloned().collect() } else { VecDeque::new() }, has_tablet: case.has_tablet,
      kbd_ready: VecDeque::new(), tab_ready: VecDeque::new(), kbd_notify: false, tab_notify: false, trace: vec![], fail_at: case.fail_at, calls: 0,
      kbd_ended: false, tab_ended: false, kbd_end_at: case.kbd_end_at, tab_end_at: if case.has_tablet { case.tab_end_at } else { None }, extra_ticks: case.extra_ticks, interrupts: 0, in_drain: false, write_fault: if case.hybrid { case.write_fault } else { None }, read_fault: if case.hybrid { case.read_fault } else { None }, kbd_reads_done: 0, tab_reads_done: 0, sends_done: 0, hw_failed: false, kbd_sabotaged: false, kbd_stamps: VecDeque::new(), tab_stamps: VecDeque::new(), once_owed: None, once_done: false, tab_sabotaged: false, kbd_hup_checked: false, tab_hup_checked: false,
      stats: SimStats::default(), bytes, byte_error: None, byte_notes: vec![],
      // runaway guard; scaled for marathon scripts
      cap: TRACE_CAP.max(10 * (case.kbd.len() + case.tab.len()) + 1000),
      syspoll: case.hybrid && case.syspoll, poll_fault: if case.hybrid && case.syspoll { case.poll_fault } else { None }, sys_waits_done: 0, sys_asked: None, sys_answer: None, sys_stall: false, script_phys: vec![], sysread_fault: if case.hybrid { case.sysread_fault } else { None }, syswrite_fault: if case.hybrid { case.syswrite_fault } else { None }, syswrite_short: if case.hybrid { case.syswrite_short } else { None }, out_held: vec![] }
  }
  fn now(&self) -> u64 { sim_now_us() }
  /// move the clock to `to` (never backwards) and deliver everything that has arrived by then
  fn advance(&mut self, to: u64) {
    if to > self.now() { set_sim_now_us(to); }
    let now = self.now();
    loop {
      // deliver in time order across the two devices and the unplug instants
      let tk = self.kbd.front().map(|x| x.0).filter(|t| *t <= now && !self.kbd_ended);
      let tt = self.tab.front().map(|x| x.0).filter(|t| *t <= now && !self.tab_ended);
      let ek = self.kbd_end_at.filter(|t| *t <= now && !self.kbd_ended);
      let et = self.tab_end_at.filter(|t| *t <= now && !self.tab_ended);
      let next = [tk, tt, ek, et].iter().flatten().min().cloned();
      let t = match next { Some(t) => t, None => break };
      if ek == Some(t) && tk.map(|x| x >= t).unwrap_or(true) { self.kbd_ended = true; self.kbd_notify = true; self.stats.kbd_unplugged += 1; if let Some(b) = self.bytes.as_mut() { b.hangup(false); } continue; }
      if et == Some(t) && tt.map(|x| x >= t).unwrap_or(true) { self.tab_ended = true; self.tab_notify = true; self.stats.tab_unplugged += 1; if let Some(b) = self.bytes.as_mut() { b.hangup(true); } continue; }
      if tk == Some(t) {
        let (_, e) = self.kbd.pop_front().unwrap();
        if self.kbd_sabotaged { continue; } // the descriptor is dead: nothing more can be read from it
        if let Some(b) = self.bytes.as_mut() { b.push_kbd(&e, &mut self.tape, &self.script_phys); }
        fold1(&mut self.script_phys, &e);
        self.kbd_ready.push_back(e); self.kbd_notify = true;
        if let Some(b) = self.bytes.as_ref() { self.kbd_stamps.push_back(crate::sysseam::reads_seen(b.device_fds().0)); }
        if self.in_drain { self.stats.arrival_during_drain += 1; }
        continue;
      }
      if tt == Some(t) {
        let (_, on) = self.tab.pop_front().unwrap();
        if self.tab_sabotaged { continue; }
        if let Some(b) = self.bytes.as_mut() { b.push_tab(on, &mut self.tape); }
        self.tab_ready.push_back(on); self.tab_notify = true;
        if let Some(b) = self.bytes.as_ref() { self.tab_stamps.push_back(crate::sysseam::reads_seen(b.device_fds().1)); }
        if self.in_drain { self.stats.arrival_during_drain += 1; }
        continue;
      }
      break;
    }
  }
  fn latency(&mut self) {
    if self.tape.fault(self.cfg.p_latency) {
      let d = self.tape.below(3000);
      // one slow call in sixteen is a stall (the process was stopped, the consumer did not drain,
      // memory was short): 20 ms to 2 s pass inside one call, several periods of a fast repeat timer
      // and any number of arrivals
      let d = if d % 16 == 1 { self.stats.stalls_in_call += 1; 20_000 + (d * 661) % 2_000_000 } else { d };
      let to = self.now() + d;
      self.stats.latency += 1;
      self.advance(to);
    }
  }
  fn maybe_fail(&mut self, what: &'static str) -> Result<(), String> {
    let c = self.calls;
    self.calls += 1;
    let now = self.now();
    self.advance(now);
    if self.fail_at == Some(c) {
      self.trace.push(Item::Fail { what });
      self.stats.io_error += 1;
      return Err(format!("{} in {} (call #{})", INJECTED, what, c));
    }
    if self.trace.len() > self.cap * 2 { return Err("simulator: runaway loop (trace cap exceeded twice)".to_string()); }
    Ok(())
  }
  fn next_event_time(&self) -> Option<u64> {
    let a = if self.kbd_ended { None } else { self.kbd.front().map(|x| x.0) };
    let b = if self.tab_ended { None } else { self.tab.front().map(|x| x.0) };
    let c = if self.kbd_ended { None } else { self.kbd_end_at };
    let d = if self.tab_ended { None } else { self.tab_end_at };
    [a, b, c, d].iter().flatten().min().cloned()
  }
  /// Hybrid runs: ask the real driver's poll (zero timeout) what is ready and compare it with what
  /// the simulated driver is about to report. `sim` = None for a time-out.
  fn cross_check_real_poll(&mut self, sim: Option<&Vec<VDevice>>) {
    if self.hw_failed { return; }
    let real = match self.bytes.as_mut() { None => return, Some(b) => b.poll_now() };
    if self.kbd_ended || self.tab_ended {
      // An unplugged device shows as a hang-up on its descriptor. Readiness is edge-triggered: the
      // real driver must report the device at the first poll after the hang-up, or the loop never
      // reads the ENODEV and never stops. (Afterwards a pipe has no counterpart for the dead node.)
      for (ended, checked, dev, name) in [(self.kbd_ended, &mut self.kbd_hup_checked, VDevice::Keyboard, "keyboard"), (self.tab_ended && self.has_tablet, &mut self.tab_hup_checked, VDevice::Tablet, "tablet switch")] {
        if ended && !*checked {
          *checked = true;
          self.stats.hangups_cross_checked += 1;
          let e = match &real {
            Ok(Some(r)) if r.contains(&dev) => None,
            Ok(r) => Some(format!("[driver]{} the {} was unplugged (hang-up on its descriptor) but the real driver's poll reported {:?}: the loop never reads the ENODEV", if dev == VDevice::Tablet { "[tablet]" } else { "" }, name, r.clone().unwrap_or_default())),
            Err(e) => Some(format!("[driver] the real driver's poll failed on pipes: {}", e)),
          };
          if let Some(e) = e { if self.byte_error.is_none() { self.byte_error = Some(e); } }
        }
      }
      return;
    }
    self.stats.real_polls_compared += 1;
    let err = match (real, sim) {
      (Err(e), _) => Some(format!("the real driver's poll failed on pipes: {}", e)),
      (Ok(None), None) => None,
      (Ok(Some(r)), None) => Some(format!("nothing arrived, yet the real driver's poll reported {:?}", r)),
      (Ok(real), Some(ds)) => {
        let r = real.unwrap_or_default();
        let mut e = None;
        // (a device the real driver lists beyond those with new data is a harmless extra read)
        for d in ds { if !r.contains(d) {
          let has_data = match d { VDevice::Keyboard => !self.kbd_ready.is_empty(), VDevice::Tablet => !self.tab_ready.is_empty() };
          if has_data { e = Some(format!("{}{:?} has unread new data but the real driver's poll reported only {:?}", if *d == VDevice::Tablet { "[tablet] " } else { "" }, d, r)); }
        } }
        e
      }
    };
    if let Some(e) = err { if self.byte_error.is_none() { self.byte_error = Some(format!("[driver] {}", e)); } }
  }
  /// no byte-format disagreement recorded yet (a "[driver]" note may be overwritten by one)
  fn no_wire_error(&self) -> bool { self.byte_error.as_ref().map_or(true, |m| m.starts_with("[driver]")) }
  /// The keyboard is gone, the loop was told so (readiness is edge-triggered: once) and went back
  /// to waiting without having read the end of the device; nothing will ever arrive again. On a
  /// real system it now sleeps for ever, or ticks its timer for ever. The run ends here.
  fn stalled(&mut self, t_in: u64, to_us: Option<u64>) -> Result<VPoll, String> {
    self.stats.stalled += 1;
    let _ = (t_in, to_us);
    Err("simulator: runaway loop (the keyboard is gone and the loop was notified, but it waits again without having read the end of the device)".to_string())
  }
  fn unplug_keyboard_now(&mut self) {
    if !self.kbd_ended { self.kbd_ended = true; self.kbd_notify = true; self.stats.kbd_unplugged += 1; if let Some(b) = self.bytes.as_mut() { b.hangup(false); } }
  }
}

// ------------------------------------------------------------------------------------------
// syspoll runs: the loop's poll is the shipped RealDriver::poll, called with the loop's own
// time-out. The wait system call it makes underneath (epoll_wait through mio; poll/ppoll for a
// driver rewritten on top of those) is answered by the simulated kernel below: it moves the
// simulated clock, delivers arrivals into the pipes, interrupts the call with EINTR, lets it time
// out, fabricates a spurious readiness report, or fails it — and for "what is ready" it asks the
// real kernel with a zero time-out, so readiness itself is never modelled, only time.
impl<'a> Sim<'a> {
  unsafe fn wait_trampoline(ctx: *mut (), call: &crate::sysseam::WaitCall, timeout_ms: libc::c_int) -> libc::c_int {
    let sim = &mut *(ctx as *mut Sim<'static>);
    sim.sys_wait(call, timeout_ms)
  }

  fn devices_in_answer(&self, call: &crate::sysseam::WaitCall, n: libc::c_int) -> Vec<VDevice> {
    let (kfd, tfd) = self.bytes.as_ref().map(|b| b.device_fds()).unwrap_or((-1, -1));
    let mut v = vec![];
    unsafe {
      match call {
        crate::sysseam::WaitCall::Epoll { events, .. } => {
          let kd = crate::sysseam::epoll_registration(kfd).map(|r| r.1); let td = crate::sysseam::epoll_registration(tfd).map(|r| r.1);
          for i in 0..n.max(0) as usize { let ev = std::ptr::read_unaligned(events.add(i)); let d = ev.u64; if Some(d) == kd { v.push(VDevice::Keyboard); } else if Some(d) == td { v.push(VDevice::Tablet); } }
        }
        crate::sysseam::WaitCall::Poll { fds, nfds } => {
          for i in 0..*nfds as usize { let f = std::ptr::read_unaligned(fds.add(i)); if f.revents != 0 { if f.fd == kfd { v.push(VDevice::Keyboard); } else if f.fd == tfd { v.push(VDevice::Tablet); } } }
        }
      }
    }
    v
  }

  /// The simulated kernel's answer to one wait system call made by the driver under test.
  fn sys_wait(&mut self, call: &crate::sysseam::WaitCall, timeout_ms: libc::c_int) -> libc::c_int {
    use crate::sysseam::set_errno;
    self.stats.sys_waits += 1;
    // a wait that is longer than what the loop asked for can never be right (a shorter one can: a
    // driver may wait in slices, so earliness is judged when its poll returns)
    if let Some(d) = self.sys_asked {
      let ceil_ms = (d.as_micros() + 999) / 1000;
      if d.as_micros() % 1000 != 0 && (timeout_ms as i128) < ceil_ms as i128 && timeout_ms >= 0 { self.stats.sys_subms_truncated += 1; }
      if timeout_ms < 0 || timeout_ms as u128 > ceil_ms + 1 {
        if self.byte_notes.len() < 12 { self.byte_notes.push(format!("[driver][timer] the loop asked its driver to wait at most {}us, the driver's wait system call was made with a time-out of {} ms", d.as_micros(), timeout_ms)); }
        if self.byte_error.is_none() { self.byte_error = Some(format!("[driver][timer] the loop asked its driver to wait at most {}us, the driver's wait system call was made with a time-out of {} ms{}", d.as_micros(), timeout_ms, if timeout_ms < 0 { " (for ever)" } else { "" })); }
      }
    }
    let k = self.sys_waits_done; self.sys_waits_done += 1;
    if let Some((at, kind)) = self.poll_fault {
      if at == k && !self.hw_failed {
        self.hw_failed = true;
        self.stats.os_poll_fault[(kind % 3) as usize] += 1; self.stats.io_error += 1;
        self.trace.push(Item::Fail { what: "poll (the wait system call fails under the real driver)" });
        self.sys_answer = Some(KAns::Error);
        unsafe { set_errno([libc::EBADF, libc::EINVAL, libc::EFAULT][(kind % 3) as usize]); }
        return -1;
      }
    }
    let t_in = self.now();
    let deadline = if timeout_ms < 0 { None } else { Some(t_in.saturating_add(timeout_ms as u64 * 1000)) }.filter(|d| *d - t_in < 1_000_000_000_000);
    // what is ready at entry is reported at once (this is also where the kernel drops a stale edge:
    // data that arrived during the previous drain and was consumed by it)
    let mut first = true;
    loop {
      if first || self.kbd_notify || self.tab_notify {
        let had = self.kbd_notify || self.tab_notify;
        let n = unsafe { call.probe() };
        self.kbd_notify = false; self.tab_notify = false;
        if n > 0 { self.stats.sys_wait_events += 1; let ds = self.devices_in_answer(call, n); self.sys_answer = Some(KAns::Events(ds)); return n; }
        if n < 0 { crate::engine::HARNESS_FAULTS.fetch_add(1, std::sync::atomic::Ordering::Relaxed); self.sys_answer = Some(KAns::Error); return n; }
        if had { self.stats.sys_stale_dropped += 1; }
        first = false;
        if let Some(d) = deadline { if self.now() >= d && timeout_ms > 0 { self.stats.sys_wait_timeouts += 1; self.stats.timer_ticks += 1; self.sys_answer = Some(KAns::Zero); return 0; } }
        if timeout_ms == 0 { self.sys_answer = Some(KAns::Zero); return 0; }
      }
      let now = self.now();
      let next_arrival = self.next_event_time();
      let horizon = match (next_arrival, deadline) { (Some(a), Some(d)) => Some(a.min(d)), (Some(a), None) => Some(a), (None, Some(d)) => Some(d), (None, None) => None };
      if self.interrupts < self.cfg.max_interrupts && self.tape.fault(self.cfg.p_eintr) {
        // a signal ends the system call at an arbitrary instant of the wait
        self.interrupts += 1;
        if let Some(h) = horizon { if h > now { let to = now + self.tape.below(h - now); self.advance(to); } }
        self.stats.eintr += 1;
        if !(self.kbd_notify || self.tab_notify) { self.stats.sys_wait_eintr += 1; self.sys_answer = Some(KAns::Eintr); unsafe { set_errno(libc::EINTR); } return -1; }
        continue;
      }
      if self.tape.fault(self.cfg.p_spurious_ready) {
        // a readiness report with nothing behind it, fabricated the way the kernel would report the descriptor
        if let Some(h) = horizon { if h > now { let to = now + self.tape.below(h - now); self.advance(to); } }
        if self.kbd_notify || self.tab_notify { continue; }
        let tablet = self.has_tablet && !self.tab_ended && self.tape.below(2) == 1;
        let (kfd, tfd) = self.bytes.as_ref().map(|b| b.device_fds()).unwrap_or((-1, -1));
        let fd = if tablet { tfd } else { kfd };
        let done = unsafe { match call {
          crate::sysseam::WaitCall::Epoll { events, maxevents, .. } => match crate::sysseam::epoll_registration(fd) {
            Some((_, data)) if *maxevents > 0 => { std::ptr::write_unaligned(*events, libc::epoll_event { events: libc::EPOLLIN as u32, u64: data }); true }
            _ => false },
          crate::sysseam::WaitCall::Poll { fds, nfds } => { let mut hit = false; for i in 0..*nfds as usize { let p = fds.add(i); let mut f = std::ptr::read_unaligned(p); f.revents = 0; if f.fd == fd && !hit { f.revents = libc::POLLIN; hit = true; } std::ptr::write_unaligned(p, f); } hit }
        } };
        if done { self.stats.spurious_ready += 1; self.stats.sys_fabricated_ready += 1; self.sys_answer = Some(KAns::Events(vec![if tablet { VDevice::Tablet } else { VDevice::Keyboard }])); return 1; }
        continue;
      }
      match (next_arrival, deadline) {
        (Some(a), d) if d.map(|d| a <= d).unwrap_or(true) => { self.advance(a); if !(self.kbd_notify || self.tab_notify) { /* an arrival on a dead descriptor: keep waiting */ } }
        (None, Some(_)) if self.extra_ticks == 0 => { if self.kbd_ended { self.sys_stall = true; self.stats.stalled += 1; unsafe { set_errno(libc::EBADF); } self.sys_answer = Some(KAns::Error); return -1; } self.unplug_keyboard_now(); }
        (_, Some(d)) => {
          if next_arrival.is_none() { self.extra_ticks -= 1; }
          let mut to = d;
          if self.tape.fault(self.cfg.p_oversleep) { to += self.tape.below(2000); self.stats.oversleep += 1; }
          if let Some(a) = next_arrival { if a <= to { to = a; } }
          self.advance(to);
          if !(self.kbd_notify || self.tab_notify) { self.stats.sys_wait_timeouts += 1; self.stats.timer_ticks += 1; self.sys_answer = Some(KAns::Zero); return 0; }
        }
        (None, None) => { if self.kbd_ended { self.sys_stall = true; self.stats.stalled += 1; unsafe { set_errno(libc::EBADF); } self.sys_answer = Some(KAns::Error); return -1; } self.unplug_keyboard_now(); }
        _ => unreachable!(),
      }
    }
  }

  /// Hybrid runs: the loop gets what the shipped driver makes of the bytes in the pipe — nothing is
  /// repaired. The script is only used to say which of the events handed out are the scripted ones
  /// (in order) and which are not (`phantom`), and to note disagreements.
  fn wire_note(&mut self, m: String) { if self.byte_notes.len() < 12 { self.byte_notes.push(m.clone()); } if self.no_wire_error() { self.byte_error = Some(m); } }
  fn next_keyboard_through_real_driver(&mut self) -> Result<VNext<Event>, String> {
    let dry_and_gone = self.kbd_ended && self.kbd_ready.is_empty();
    if dry_and_gone { self.bytes.as_mut().unwrap().unplug(false); self.stats.os_enodev += 1; }
    let reads_before = crate::sysseam::reads_seen(self.bytes.as_ref().unwrap().device_fds().0);
    let r = self.bytes.as_mut().unwrap().raw_next_keyboard();
    let no_syscall = crate::sysseam::reads_seen(self.bytes.as_ref().unwrap().device_fds().0) == reads_before;
    if let Some((_, false)) = self.sysread_fault {
      if !self.kbd_sabotaged && !self.once_done && crate::sysseam::watch_fired(self.bytes.as_ref().unwrap().device_fds().0) {
        // a read(2) failed somewhere inside this call; the descriptor is dead from here on. Records the
        // reader had already pulled out may still be handed out; then the failure must be reported
        self.kbd_sabotaged = true; self.stats.os_sysread_fault += 1; self.stats.io_error += 1;
        let once = self.sysread_fault.map(|(n, _)| n >= SYSREAD_ONCE).unwrap_or(false);
        if once { self.kbd_sabotaged = false; self.once_done = true; self.stats.os_sysread_once += 1; }
        return match r {
          Err(e) => { self.hw_failed = true; self.once_done = true; self.trace.push(Item::Fail { what: "next_keyboard (read(2) failure under the real driver)" }); Err(format!("{}: {}", INJECTED, e)) }
          Ok(VNext::One(e)) if self.kbd_ready.front() == Some(&e) => {
            self.kbd_ready.pop_front();
            // a transient failure: the reader may still hand out what it had pulled out of the queue
            // before the call that failed (at most what was waiting there); after that it owes the error
            if once { self.once_owed = Some(self.kbd_ready.len()); }
            self.trace.push(Item::NextK { res: Some(e.clone()), end: false, t_out: self.now(), phantom: false }); Ok(VNext::One(e)) }
          Ok(other) => { self.hw_failed = true; self.trace.push(Item::Fail { what: "next_keyboard (read(2) failure hidden by the driver)" }); Ok(other) }
        };
      }
    }
    if let (Some(allow), Some((_, false))) = (self.once_owed, self.sysread_fault) {
      match &r {
        Err(e) => { self.once_owed = None; self.hw_failed = true; self.trace.push(Item::Fail { what: "next_keyboard (read(2) failure under the real driver, reported after the records read before it)" }); return Err(format!("{}: {}", INJECTED, e)); }
        Ok(VNext::One(e)) if allow > 0 && self.kbd_ready.front() == Some(e) => { self.once_owed = Some(allow - 1); }
        Ok(_) => { self.once_owed = None; self.hw_failed = true; self.trace.push(Item::Fail { what: "next_keyboard (a read(2) failure was never reported by the driver)" }); }
      }
    }
    match r {
      Ok(VNext::One(got)) => {
        let mut phantom = false;
        if self.kbd_ready.front() == Some(&got) { self.kbd_ready.pop_front(); }
        else if let Some(pos) = self.kbd_ready.iter().position(|x| *x == got) {
          let lost: Vec<Event> = self.kbd_ready.drain(..pos).collect(); self.kbd_ready.pop_front();
          self.wire_note(format!("real reader returned {} where {} was written ({} event(s) were never handed out)", ev_str(&got), ev_str(&lost[0]), lost.len()));
        } else {
          phantom = true;
          if dry_and_gone { if self.byte_error.is_none() { self.byte_error = Some(format!("[driver] the keyboard was unplugged (read fails with ENODEV) but the real driver handed out {}", ev_str(&got))); } }
          else if let Some(e) = self.kbd_ready.front().cloned() { self.wire_note(format!("real reader returned {} where {} was written", ev_str(&got), ev_str(&e))); }
          else { self.wire_note(format!("real reader returned {} although no key event was pending", ev_str(&got))); }
        }
        self.trace.push(Item::NextK { res: Some(got.clone()), end: false, t_out: self.now(), phantom });
        Ok(VNext::One(got))
      }
      Ok(VNext::Busy) => {
        // (an answer given without any read(2) in this call is the reader's memory of an earlier EAGAIN:
        // the hang-up came after it and is announced again; a reader that never looks again is a runaway)
        if dry_and_gone && no_syscall { self.stats.busy_from_remembered_eagain += 1; }
        else if dry_and_gone { if self.byte_error.is_none() { self.byte_error = Some("[driver] the keyboard was unplugged (read fails with ENODEV) but the real driver told the loop Busy: the loop would never stop".into()); } }
        else if let Some(e) = self.kbd_ready.front().cloned() {
          // a reader that reads ahead may answer from an EAGAIN it got earlier: that is the truth as of
          // its last read(2), and what was written since is announced again (a new edge). Only a reader
          // that has made a read(2) since the event was written, and still says "nothing", withholds it
          while self.kbd_stamps.len() > self.kbd_ready.len() { self.kbd_stamps.pop_front(); }
          let since = crate::sysseam::reads_seen(self.bytes.as_ref().unwrap().device_fds().0);
          if self.kbd_stamps.front() == Some(&since) { self.stats.busy_from_remembered_eagain += 1; }
          else { self.wire_note(format!("real reader reported EAGAIN although {} was written", ev_str(&e))); }
        }
        self.trace.push(Item::NextK { res: None, end: false, t_out: self.now(), phantom: false });
        Ok(VNext::Busy)
      }
      Ok(VNext::End) => {
        if !self.kbd_ended { self.wire_note("the real driver reported End on a pipe that is still open".into()); }
        self.trace.push(Item::NextK { res: None, end: true, t_out: self.now(), phantom: false });
        Ok(VNext::End)
      }
      Err(e) => {
        if self.kbd_ended {
          // reporting the unplug as a failure is as good as End: the loop must then stop with that error
          self.hw_failed = true; self.trace.push(Item::Fail { what: "next_keyboard (ENODEV reported as an error by the driver)" });
          Err(format!("{}: {}", INJECTED, e))
        } else { self.wire_note(format!("real reader failed: {}", e)); Err(e) }
      }
    }
  }
  fn next_tablet_through_real_driver(&mut self) -> Result<VNext<bool>, String> {
    let dry_and_gone = self.has_tablet && self.tab_ended && self.tab_ready.is_empty();
    if dry_and_gone { self.bytes.as_mut().unwrap().unplug(true); self.stats.os_enodev += 1; }
    let reads_before = crate::sysseam::reads_seen(self.bytes.as_ref().unwrap().device_fds().1);
    let r = self.bytes.as_mut().unwrap().raw_next_tablet();
    let no_syscall = crate::sysseam::reads_seen(self.bytes.as_ref().unwrap().device_fds().1) == reads_before;
    if let Some((_, true)) = self.sysread_fault {
      if !self.tab_sabotaged && !self.once_done && crate::sysseam::watch_fired(self.bytes.as_ref().unwrap().device_fds().1) {
        self.tab_sabotaged = true; self.stats.os_sysread_fault += 1; self.stats.io_error += 1;
        let once = self.sysread_fault.map(|(n, _)| n >= SYSREAD_ONCE).unwrap_or(false);
        if once { self.tab_sabotaged = false; self.once_done = true; self.stats.os_sysread_once += 1; }
        return match r {
          Err(e) => { self.hw_failed = true; self.once_done = true; self.trace.push(Item::Fail { what: "next_tablet (read(2) failure under the real driver)" }); Err(format!("{}: {}", INJECTED, e)) }
          Ok(VNext::One(on)) if self.tab_ready.front() == Some(&on) => { self.tab_ready.pop_front(); if once { self.once_owed = Some(self.tab_ready.len()); } self.trace.push(Item::NextT { res: Some(on), end: false, t_out: self.now(), phantom: false }); Ok(VNext::One(on)) }
          Ok(other) => { self.hw_failed = true; self.trace.push(Item::Fail { what: "next_tablet (read(2) failure hidden by the driver)" }); Ok(other) }
        };
      }
    }
    if let (Some(allow), Some((_, true))) = (self.once_owed, self.sysread_fault) {
      match &r {
        Err(e) => { self.once_owed = None; self.hw_failed = true; self.trace.push(Item::Fail { what: "next_tablet (read(2) failure under the real driver, reported after the records read before it)" }); return Err(format!("{}: {}", INJECTED, e)); }
        Ok(VNext::One(on)) if allow > 0 && self.tab_ready.front() == Some(on) => { self.once_owed = Some(allow - 1); }
        Ok(_) => { self.once_owed = None; self.hw_failed = true; self.trace.push(Item::Fail { what: "next_tablet (a read(2) failure was never reported by the driver)" }); }
      }
    }
    match r {
      Ok(VNext::One(got)) => {
        let mut phantom = false;
        if self.tab_ready.front() == Some(&got) { self.tab_ready.pop_front(); }
        else if let Some(pos) = self.tab_ready.iter().position(|x| *x == got) {
          let lost = pos; self.tab_ready.drain(..pos); self.tab_ready.pop_front();
          self.wire_note(format!("[tablet] the real tablet reader skipped {} switch event(s) that were written", lost));
        } else {
          phantom = true;
          if dry_and_gone { if self.byte_error.is_none() { self.byte_error = Some(format!("[driver] the tablet switch was unplugged (read fails with ENODEV) but the real driver handed out {}", got)); } }
          else if self.tab_ready.is_empty() { self.wire_note("[tablet] the real tablet reader returned an event although none was pending".into()); }
          else { self.wire_note(format!("[tablet] the real tablet reader returned {} where {} was written", got, !got)); }
        }
        self.trace.push(Item::NextT { res: Some(got), end: false, t_out: self.now(), phantom });
        Ok(VNext::One(got))
      }
      Ok(VNext::Busy) => {
        if dry_and_gone && no_syscall { self.stats.busy_from_remembered_eagain += 1; }
        else if dry_and_gone { if self.byte_error.is_none() { self.byte_error = Some("[driver] the tablet switch was unplugged (read fails with ENODEV) but the real driver told the loop Busy".into()); } }
        else if !self.tab_ready.is_empty() {
          while self.tab_stamps.len() > self.tab_ready.len() { self.tab_stamps.pop_front(); }
          let since = crate::sysseam::reads_seen(self.bytes.as_ref().unwrap().device_fds().1);
          if self.tab_stamps.front() == Some(&since) { self.stats.busy_from_remembered_eagain += 1; }
          else { self.wire_note("[tablet] the real tablet reader reported EAGAIN although a switch event was written".into()); }
        }
        self.trace.push(Item::NextT { res: None, end: false, t_out: self.now(), phantom: false });
        Ok(VNext::Busy)
      }
      Ok(VNext::End) => {
        if self.has_tablet && !self.tab_ended { self.wire_note("[tablet] the real driver reported End on a tablet pipe that is still open".into()); }
        self.trace.push(Item::NextT { res: None, end: true, t_out: self.now(), phantom: false });
        Ok(VNext::End)
      }
      Err(e) => {
        if self.tab_ended {
          self.hw_failed = true; self.trace.push(Item::Fail { what: "next_tablet (ENODEV reported as an error by the driver)" });
          Err(format!("{}: {}", INJECTED, e))
        } else { self.wire_note(format!("[tablet] the real tablet reader failed: {}", e)); Err(e) }
      }
    }
  }

  fn poll_through_real_driver(&mut self, timeout: Option<Duration>) -> Result<VPoll, String> {
    self.in_drain = false;
    let t_in = self.now();
    let to_us = timeout.map(|d| d.as_micros() as u64);
    if self.trace.len() > self.cap { self.stats.trace_cap_hit += 1; self.unplug_keyboard_now(); }
    self.stats.sys_polls_through_real_driver += 1;
    self.sys_asked = timeout; self.sys_answer = None; self.sys_stall = false;
    let this: *mut Sim<'a> = self;
    // from here on the simulator is reached through `this` only: the wait handler re-enters it
    let r = unsafe {
      let mut drv = match (*this).bytes.as_mut().and_then(|b| b.take_driver()) { Some(d) => d, None => return Err("simulator: syspoll run without a real driver".into()) };
      crate::sysseam::arm_wait(this as *mut (), Sim::<'static>::wait_trampoline);
      let r = drv.poll(timeout);
      crate::sysseam::disarm_wait();
      (*this).bytes.as_mut().unwrap().put_driver(drv);
      r
    };
    self.sys_asked = None;
    if self.sys_stall { return Err("simulator: runaway loop (the keyboard is gone and the loop was notified, but it waits again without having read the end of the device)".to_string()); }
    let answer = self.sys_answer.take();
    let note = |s: &mut Sim<'a>, m: String| { if s.byte_notes.len() < 12 { s.byte_notes.push(m.clone()); } if s.byte_error.is_none() { s.byte_error = Some(m); } };
    let res = match r {
      Err(e) => {
        return if answer == Some(KAns::Error) { Err(format!("{}: {}", INJECTED, e)) } else { Err(e) };
      }
      Ok(VPoll::Devices(ds)) => {
        match &answer {
          Some(KAns::Events(kd)) => {
            for d in kd { if !ds.contains(d) { note(self, format!("[driver]{} the kernel reported {:?} ready, the real driver's poll told the loop only {:?}", if *d == VDevice::Tablet { "[tablet]" } else { "" }, kd, ds)); } }
            // (a device the driver lists although the kernel did not name it costs the loop one read that
            // finds nothing: no statement forbids it)
            if ds.iter().any(|d| !kd.contains(d)) { self.stats.sys_extra_devices_listed += 1; }
          }
          Some(KAns::Zero) => { if to_us.is_some() { note(self, format!("[driver][timer] the wait system call timed out with nothing ready, the real driver's poll hid the time-out from the loop and told it {:?}", ds)); } }
          Some(KAns::Eintr) => note(self, format!("[driver] the wait system call was interrupted by a signal, the real driver's poll told the loop {:?}", ds)),
          _ => {}
        }
        if self.kbd_ready.len() + self.tab_ready.len() >= 2 { self.stats.multi_event_wakeups += 1; }
        if self.kbd_ready.len() + self.tab_ready.len() >= 16 { self.stats.max_events_one_wakeup += 1; }
        if ds.len() == 2 { self.stats.both_devices_ready += 1; if ds[0] == VDevice::Tablet { self.stats.order_flipped += 1; } }
        self.in_drain = true;
        PollRes::Devices(ds)
      }
      Ok(VPoll::TimedOut) => {
        match &answer {
          Some(KAns::Events(kd)) => note(self, format!("[driver]{} the kernel reported {:?} ready, the real driver's poll told the loop it timed out", if kd.contains(&VDevice::Tablet) { "[tablet]" } else { "" }, kd)),
          _ => {}
        }
        // "waits for at most delay_ms and then writes": a time-out reported before the time the loop
        // asked for has passed (less the millisecond granularity of the system call) is early
        if let Some(us) = to_us { if answer != Some(KAns::Error) && self.now() + 1000 <= t_in.saturating_add(us) && us < 1_000_000_000_000 {
          note(self, format!("[driver][timer] the loop asked to wait {}us at t={}us; its driver reported a time-out at t={}us, {}us early{}", us, t_in, self.now(), t_in + us - self.now(), if answer == Some(KAns::Eintr) { " (the wait system call had been interrupted by a signal)" } else { "" }));
        } }
        PollRes::TimedOut
      }
      Ok(VPoll::Interrupted) => {
        match &answer {
          Some(KAns::Events(kd)) => note(self, format!("[driver]{} the kernel reported {:?} ready, the real driver's poll told the loop it was interrupted", if kd.contains(&VDevice::Tablet) { "[tablet]" } else { "" }, kd)),
          _ => {}
        }
        PollRes::Interrupted
      }
    };
    self.trace.push(Item::Poll { t_in, timeout: to_us, res: res.clone(), t_out: self.now(), unread: (self.kbd_ready.len() + self.tab_ready.len()) as u32 });
    Ok(match res { PollRes::Devices(ds) => VPoll::Devices(ds), PollRes::TimedOut => VPoll::TimedOut, PollRes::Interrupted => VPoll::Interrupted })
  }
}

impl<'a> VerifDriver for Sim<'a> {
  fn register_poll(&mut self) -> Result<(), String> {
    if let (Some((n, tablet)), Some(b)) = (self.sysread_fault, self.bytes.as_ref()) {
      let (k, t) = b.device_fds();
      if n >= SYSREAD_ONCE { crate::sysseam::fail_read_call_once(if tablet { t } else { k }, (n - SYSREAD_ONCE) as u32, libc::EIO); }
      else { crate::sysseam::fail_reads_from_call(if tablet { t } else { k }, n as u32, libc::EIO); }
    }
    if let (Some((from, count, kind)), Some(b)) = (self.syswrite_fault, self.bytes.as_ref()) { crate::sysseam::fail_writes(b.uinput_fd(), from as u32, if count == 0 { u32::MAX } else { count }, [libc::EAGAIN, libc::EIO, libc::ENOSPC, libc::EINTR][(kind % 4) as usize]);
      if let (Some(bytes), true) = (self.syswrite_short, from > 0) { crate::sysseam::short_write(b.uinput_fd(), from as u32 - 1, bytes); } }
    self.maybe_fail("register_poll")?;
    if let Some(b) = self.bytes.as_mut() { if let Err(e) = b.register() { if self.byte_error.is_none() { self.byte_error = Some(format!("[driver] the real driver's register_poll failed on pipes: {}", e)); } } }
    self.trace.push(Item::Register);
    Ok(())
  }

  fn poll(&mut self, timeout: Option<Duration>) -> Result<VPoll, String> {
    self.maybe_fail("poll")?;
    if self.syspoll && self.bytes.is_some() && !self.hw_failed { return self.poll_through_real_driver(timeout); }
    self.in_drain = false;
    let t_in = self.now();
    let to_us = timeout.map(|d| d.as_micros() as u64);
    if self.trace.len() > self.cap { self.stats.trace_cap_hit += 1; self.unplug_keyboard_now(); }
    if to_us == Some(0) && !(self.kbd_notify || self.tab_notify) {
      // a look with a zero time-out never waits: nothing is new, it says so at once (no clock movement,
      // no fault, and it is not a tick of the repeat timer as far as the run bounds are concerned)
      self.stats.zero_timeout_looks += 1;
      self.cross_check_real_poll(None);
      self.trace.push(Item::Poll { t_in, timeout: to_us, res: PollRes::TimedOut, t_out: self.now(), unread: (self.kbd_ready.len() + self.tab_ready.len()) as u32 });
      return Ok(VPoll::TimedOut);
    }
    if !(self.kbd_notify || self.tab_notify) {
      let next_arrival = self.next_event_time();
      // a timeout of more than ~11 days of simulated time is an unarmed wait for scheduling purposes
      let deadline = to_us.filter(|d| *d < 1_000_000_000_000).map(|d| t_in.saturating_add(d));
      let horizon = match (next_arrival, deadline) { (Some(a), Some(d)) => Some(a.min(d)), (Some(a), None) => Some(a), (None, Some(d)) => Some(d), (None, None) => None };
      // a signal interrupts the wait at an arbitrary instant
      if self.interrupts < self.cfg.max_interrupts && self.tape.fault(self.cfg.p_eintr) {
        self.interrupts += 1;
        if let Some(h) = horizon { if h > t_in { let to = t_in + self.tape.below(h - t_in); self.advance(to); } }
        self.stats.eintr += 1;
        // nothing may have arrived: the wait ended early
        if !(self.kbd_notify || self.tab_notify) {
          self.trace.push(Item::Poll { t_in, timeout: to_us, res: PollRes::Interrupted, t_out: self.now(), unread: (self.kbd_ready.len() + self.tab_ready.len()) as u32 });
          return Ok(VPoll::Interrupted);
        }
      }
      else if to_us.is_none() && self.tape.fault(self.cfg.p_spurious_timeout) {
        // a time-out although no timer is armed
        self.stats.spurious_timeout += 1;
        self.trace.push(Item::Poll { t_in, timeout: to_us, res: PollRes::TimedOut, t_out: self.now(), unread: (self.kbd_ready.len() + self.tab_ready.len()) as u32 });
        return Ok(VPoll::TimedOut);
      }
      else if self.tape.fault(self.cfg.p_spurious_ready) {
        // readiness with nothing to read
        if let Some(h) = horizon { if h > t_in { let to = t_in + self.tape.below(h - t_in); self.advance(to); } }
        if !(self.kbd_notify || self.tab_notify) {
          self.stats.spurious_ready += 1;
          let d = if self.has_tablet && !self.tab_ended && self.tape.below(2) == 1 { VDevice::Tablet } else { VDevice::Keyboard };
          self.trace.push(Item::Poll { t_in, timeout: to_us, res: PollRes::Devices(vec![d]), t_out: self.now(), unread: (self.kbd_ready.len() + self.tab_ready.len()) as u32 });
          return Ok(VPoll::Devices(vec![d]));
        }
      }
      else {
        match (next_arrival, deadline) {
          (Some(a), d) if d.map(|d| a <= d).unwrap_or(true) => { self.advance(a); }
          (None, Some(_)) if self.extra_ticks == 0 => { if self.kbd_ended { return self.stalled(t_in, to_us); } self.unplug_keyboard_now(); }
          (_, Some(d)) => {
            if next_arrival.is_none() { self.extra_ticks -= 1; }
            let mut to = d;
            if self.tape.fault(self.cfg.p_oversleep) { to += self.tape.below(2000); self.stats.oversleep += 1; }
            // a late wake-up never skips an arrival: the arrival wakes poll instead
            if let Some(a) = next_arrival { if a <= to { to = a; } }
            self.advance(to);
            if !(self.kbd_notify || self.tab_notify) {
              self.stats.timer_ticks += 1;
              self.cross_check_real_poll(None);
              self.trace.push(Item::Poll { t_in, timeout: to_us, res: PollRes::TimedOut, t_out: self.now(), unread: (self.kbd_ready.len() + self.tab_ready.len()) as u32 });
              return Ok(VPoll::TimedOut);
            }
          }
          (None, None) => { if self.kbd_ended { return self.stalled(t_in, to_us); } self.unplug_keyboard_now(); }
          _ => unreachable!(),
        }
      }
    }
    let mut ds = vec![];
    if self.kbd_notify { ds.push(VDevice::Keyboard); }
    if self.tab_notify { ds.push(VDevice::Tablet); }
    if ds.len() == 2 { self.stats.both_devices_ready += 1; if self.tape.below(2) == 1 { ds.reverse(); self.stats.order_flipped += 1; } }
    if self.kbd_ready.len() + self.tab_ready.len() >= 2 { self.stats.multi_event_wakeups += 1; }
    if self.kbd_ready.len() + self.tab_ready.len() >= 16 { self.stats.max_events_one_wakeup += 1; }
    self.kbd_notify = false; self.tab_notify = false;
    self.in_drain = true;
    self.cross_check_real_poll(Some(&ds));
    self.trace.push(Item::Poll { t_in, timeout: to_us, res: PollRes::Devices(ds.clone()), t_out: self.now(), unread: (self.kbd_ready.len() + self.tab_ready.len()) as u32 });
    Ok(VPoll::Devices(ds))
  }

  fn next_keyboard(&mut self) -> Result<VNext<Event>, String> {
    self.maybe_fail("next_keyboard")?;
    self.latency();
    let kr = self.kbd_reads_done; self.kbd_reads_done += 1;
    if self.hw_failed { self.trace.push(Item::NextK { res: None, end: true, t_out: self.now(), phantom: false }); return Ok(VNext::End); }
    if let (Some((at, false)), true) = (self.read_fault, self.bytes.is_some()) {
      if at == kr && !self.kbd_sabotaged {
        // from now on every read system call on the keyboard descriptor fails (EBADF); a reader may
        // still hand out records it had already pulled out of the pipe
        self.bytes.as_mut().unwrap().sabotage_reader(false);
        self.kbd_sabotaged = true; self.stats.os_read_fault += 1; self.stats.io_error += 1;
      }
    }
    if self.kbd_sabotaged {
      let b = self.bytes.as_mut().unwrap();
      let reads_before = crate::sysseam::reads_seen(b.device_fds().0);
      let r = b.raw_next_keyboard();
      // Busy without a read(2) in this call is the reader's memory of an EAGAIN from before the fault:
      // it has not met the dead descriptor yet, nothing is hidden
      let no_syscall = crate::sysseam::reads_seen(b.device_fds().0) == reads_before;
      if matches!(r, Ok(VNext::Busy)) && no_syscall {
        self.stats.busy_from_remembered_eagain += 1;
        self.trace.push(Item::NextK { res: None, end: false, t_out: sim_now_us(), phantom: false });
        return Ok(VNext::Busy);
      }
      // likewise End remembered from an ENODEV it got before the fault, on a device that is really gone
      if matches!(r, Ok(VNext::End)) && no_syscall && self.kbd_ended {
        self.stats.busy_from_remembered_eagain += 1;
        self.trace.push(Item::NextK { res: None, end: true, t_out: sim_now_us(), phantom: false });
        return Ok(VNext::End);
      }
      return match r {
        Err(e) => { self.hw_failed = true; self.trace.push(Item::Fail { what: "next_keyboard (OS-level read failure under the real driver)" }); Err(format!("{}: {}", INJECTED, e)) }
        Ok(VNext::One(e)) if self.kbd_ready.front() == Some(&e) => { self.kbd_ready.pop_front(); self.trace.push(Item::NextK { res: Some(e.clone()), end: false, t_out: sim_now_us(), phantom: false }); Ok(VNext::One(e)) }
        // Busy, End or an event that was never delivered although the descriptor is dead: the failure was hidden
        Ok(other) => { self.hw_failed = true; self.trace.push(Item::Fail { what: "next_keyboard (OS-level read failure hidden by the driver)" }); Ok(other) }
      };
    }
    if self.bytes.is_some() { return self.next_keyboard_through_real_driver(); }
    let r = if !self.kbd_ready.is_empty() {
      let e = self.kbd_ready.pop_front().unwrap();
      self.trace.push(Item::NextK { res: Some(e.clone()), end: false, t_out: self.now(), phantom: false });
      VNext::One(e)
    } else if self.kbd_ended { self.trace.push(Item::NextK { res: None, end: true, t_out: self.now(), phantom: false }); VNext::End }
    else { self.trace.push(Item::NextK { res: None, end: false, t_out: self.now(), phantom: false }); VNext::Busy };
    Ok(r)
  }

  fn next_tablet(&mut self) -> Result<VNext<bool>, String> {
    self.maybe_fail("next_tablet")?;
    self.latency();
    let tr = self.tab_reads_done; self.tab_reads_done += 1;
    if self.hw_failed { self.trace.push(Item::NextT { res: None, end: true, t_out: self.now(), phantom: false }); return Ok(VNext::End); }
    if let (Some((at, true)), true) = (self.read_fault, self.bytes.is_some()) {
      if at == tr && !self.tab_sabotaged {
        self.bytes.as_mut().unwrap().sabotage_reader(true);
        self.tab_sabotaged = true; self.stats.os_read_fault += 1; self.stats.io_error += 1;
      }
    }
    if self.tab_sabotaged {
      let b = self.bytes.as_mut().unwrap();
      let reads_before = crate::sysseam::reads_seen(b.device_fds().1);
      let r = b.raw_next_tablet();
      let no_syscall = crate::sysseam::reads_seen(b.device_fds().1) == reads_before;
      if matches!(r, Ok(VNext::Busy)) && no_syscall {
        self.stats.busy_from_remembered_eagain += 1;
        self.trace.push(Item::NextT { res: None, end: false, t_out: sim_now_us(), phantom: false });
        return Ok(VNext::Busy);
      }
      if matches!(r, Ok(VNext::End)) && no_syscall && self.tab_ended {
        self.stats.busy_from_remembered_eagain += 1;
        self.trace.push(Item::NextT { res: None, end: true, t_out: sim_now_us(), phantom: false });
        return Ok(VNext::End);
      }
      return match r {
        Err(e) => { self.hw_failed = true; self.trace.push(Item::Fail { what: "next_tablet (OS-level read failure under the real driver)" }); Err(format!("{}: {}", INJECTED, e)) }
        Ok(VNext::One(on)) if self.tab_ready.front() == Some(&on) => { self.tab_ready.pop_front(); self.trace.push(Item::NextT { res: Some(on), end: false, t_out: sim_now_us(), phantom: false }); Ok(VNext::One(on)) }
        Ok(other) => { self.hw_failed = true; self.trace.push(Item::Fail { what: "next_tablet (OS-level read failure hidden by the driver)" }); Ok(other) }
      };
    }
    if self.bytes.is_some() { return self.next_tablet_through_real_driver(); }
    let r = if !self.tab_ready.is_empty() {
      let on = self.tab_ready.pop_front().unwrap();
      self.trace.push(Item::NextT { res: Some(on), end: false, t_out: self.now(), phantom: false });
      VNext::One(on)
    } else if self.tab_ended || !self.has_tablet { self.trace.push(Item::NextT { res: None, end: true, t_out: self.now(), phantom: false }); VNext::End }
    else { self.trace.push(Item::NextT { res: None, end: false, t_out: self.now(), phantom: false }); VNext::Busy };
    Ok(r)
  }

  fn send(&mut self, evs: &Vec<Event>) -> Result<(), String> {
    self.maybe_fail("send")?;
    self.latency();
    let k = self.sends_done;
    self.sends_done += 1;
    if self.hw_failed {
      // the virtual keyboard's fd is already broken; whatever the loop still writes is recorded
      self.trace.push(Item::Send { evs: evs.clone(), t_out: self.now() });
      return Ok(());
    }
    if let (Some((at, kind)), true) = (self.write_fault, self.bytes.is_some()) {
      if at == k {
        // the write() underneath the real DevInputWriter fails; what RealDriver::send does with the
        // writer's verdict is mirrored here: Err(e) => Err("write() to synthetic keyboard failed with e")
        let b = self.bytes.as_mut().unwrap();
        b.sabotage_writer(kind);
        self.hw_failed = true;
        self.stats.os_write_fault[(kind % 3) as usize] += 1;
        self.stats.io_error += 1;
        self.trace.push(Item::Fail { what: "send (OS-level write failure under the real writer)" });
        return match b.raw_send(evs) {
          Ok(()) => Ok(()), // the writer reported success although nothing reached the device
          Err(e) => Err(format!("{}: write() to synthetic keyboard failed with {}", INJECTED, e)),
        };
      }
    }
    if self.syswrite_fault.is_some() && self.bytes.is_some() {
      // runs with numbered write(2) failures: the writer's verdict and what really arrived are looked at separately
      let (r, arrived, failed_now) = { let b = self.bytes.as_mut().unwrap(); let r = b.raw_send(evs); let arrived = b.drain_uinput(); let f = crate::sysseam::take_write_failed(b.uinput_fd()); (r, arrived, f) };
      let seen = crate::wiresim::decode_leniently(&arrived);
      let whole = crate::wiresim::check_wire(&arrived, evs);
      if !failed_now {
        if let Err(e) = &whole { if r.is_ok() { self.wire_note(e.clone()); } }
        if let Err(e) = r { self.wire_note(format!("real writer failed on a pipe: {}", e)); }
        for e in &seen { fold1(&mut self.out_held, e); }
        self.trace.push(Item::Send { evs: seen, t_out: self.now() });
        return Ok(());
      }
      let kind = self.syswrite_fault.map(|f| f.2 % 4).unwrap_or(0) as usize;
      self.stats.os_syswrite_fault[kind] += 1; self.stats.io_error += 1;
      let before = self.out_held.clone();
      for e in &seen { fold1(&mut self.out_held, e); }
      return match r {
        Ok(()) => {
          // the writer or the driver dealt with the failure itself (a retry): right if the device
          // got exactly the batch, once
          let mut hidden = false;
          match whole { Ok(_) => { self.stats.syswrite_retried_ok += 1; } Err(e) => { hidden = true; self.wire_note(format!("a write(2) on the virtual keyboard failed ({}), send reported success, but: {}", ["EAGAIN", "EIO", "ENOSPC", "EINTR"][kind], e)); } }
          self.trace.push(Item::Send { evs: seen, t_out: self.now() });
          // C20's sweep (fault kinds 4-7): a failed write after which send reports success although the
          // device did not get the batch is a failure the loop was never told about
          if hidden && self.syswrite_fault.map(|f| f.2 >= 4).unwrap_or(false) { self.hw_failed = true; self.trace.push(Item::Fail { what: "send (a write(2) failure was hidden: send reported success, the device did not get the batch)" }); }
          Ok(())
        }
        Err(e) => {
          // the failure is reported. A frame that reached the device in part is malformed (no closing
          // SYN_REPORT), and a no-repeat step cut between press and release leaves a key down
          if !arrived.is_empty() && whole.is_err() {
            self.stats.syswrite_partial_frames += 1;
            let mut full = before.clone(); for x in evs { fold1(&mut full, x); }
            let stuck: Vec<KeyCode> = self.out_held.iter().filter(|k| !is_mod(k) && !before.contains(k) && !full.contains(k)).cloned().collect();
            if !stuck.is_empty() && self.byte_notes.len() < 12 { self.byte_notes.push(format!("[partial-step] the failed write left {} down on the virtual keyboard although the batch {} as a whole leaves it up (the device got {})", keys_str(&stuck), evs_str(evs), evs_str(&seen))); }
            // (a part of a frame on the device after a *reported* failure is counted, not judged: no statement
            // says a batch must go out in one write call; what is judged is the stuck key above)
          }
          if !seen.is_empty() { self.trace.push(Item::Send { evs: seen, t_out: self.now() }); }
          self.hw_failed = true;
          self.trace.push(Item::Fail { what: "send (write(2) failure under the real writer)" });
          Err(format!("{}: write() to synthetic keyboard failed with {}", INJECTED, e))
        }
      };
    }
    let seen = match self.bytes.as_mut() {
      None => evs.clone(),
      Some(b) => match b.send(evs) { Ok(d) => d, Err(e) => { if self.byte_error.as_ref().map_or(true, |m| m.starts_with("[driver]")) { self.byte_error = Some(e); } b.take_actual().unwrap_or_else(|| evs.clone()) } }
    };
    self.trace.push(Item::Send { evs: seen, t_out: self.now() });
    Ok(())
  }
}

// ------------------------------------------------------------------------------------------
// RefLoop: replays the recorded trace against a real Mapper of its own and predicts what the
// loop owes at every point. Each property's check reports only its own projection; on a
// disagreement that belongs to another property the model adopts what the loop did and goes on.

#[derive(Clone, Copy, Default, Debug)]
pub struct EnB { pub c10: bool, pub c11: bool, pub c12: bool, pub c19: bool, pub c20: bool, pub c18: bool, pub c06: bool, pub c09: bool }
impl EnB {
  pub fn only(p: &str) -> EnB {
    let mut e = EnB::default();
    match p { "C10" => e.c10 = true, "C11" => e.c11 = true, "C12" => e.c12 = true, "C19" => e.c19 = true, "C20" => e.c20 = true, "C18" => e.c18 = true, "C06" => e.c06 = true, "C09" => e.c09 = true, _ => {} }
    e
  }
  fn on(&self, label: &str) -> bool {
    match &label[..3] { "C10" => self.c10, "C11" => self.c11, "C12" => self.c12, "C19" => self.c19, "C20" => self.c20, "C18" => self.c18, "C06" => self.c06, "C09" => self.c09, _ => false }
  }
}

#[derive(Default, Clone, Debug)]
pub struct ObsB {
  pub nt_c10: bool, pub nt_c11: bool, pub nt_c12: bool, pub nt_c19: bool, pub nt_c20: bool,
  pub chords: u64, pub chords_while_held: u64, pub chord_key_held: u64, pub sends: u64, pub tablet_on_while_held: u64, pub tablet_on_while_timer: u64,
  pub reads_in_tablet_mode: u64, pub timer_disarmed_by_event: u64, pub nochange_while_armed: u64, pub overdue_polls: u64, pub early_polls: u64, pub orphan_releases_after_tablet: u64, pub phantom_events: u64, pub rounded_up_polls: u64,
  pub other_property_disagreements: u64,
  pub shape: u64,
}

#[derive(PartialEq, Clone, Copy, Debug)]
enum Kind { Step, Chord, Tablet }

/// What the loop owes the virtual keyboard, in order. Events are compared as a stream: the
/// statement fixes which events are written, once and in which order — not how they are cut into
/// write calls, nor that a batch is written before the next read (only before the loop waits again).
struct Group { kind: Kind, evs: VecDeque<Event>, set: Vec<KeyCode>, before: Option<Vec<KeyCode>>, tablet_on: bool,
  /// a repeat chord that may or may not be due (the loop woke up early and the clock then stood
  /// inside the interval in which the deadline is known to lie): writing it and not writing it are
  /// both right; `gen` names the timer it belongs to
  optional: bool, gen: u64 }

struct Timer { keys: Vec<KeyCode>, lo: u64, hi: u64, iv: u64, delay: u64, anchor_open: bool, gen: u64 }

pub fn check_trace(l: &Layout, trace: &[Item], result: &Result<(), String>, en: &EnB, obs: &mut ObsB) -> Option<Violation> {
  let mut mapper = Mapper::for_layout(l);
  let mut tablet = false;
  // C11 speaks about delay >= 0 ms and interval >= 1 ms; what a layout with other timings makes the
  // timer do is pinned down by no statement, so for such a layout nothing about the timer is
  // predicted in any projection: what is written after a time-out is taken as it comes
  let unspecified_timing = l.mappings.iter().any(|m| matches!(&m.repeat, Repeat::Special { delay_ms, interval_ms, .. } if *delay_ms < 0 || *interval_ms < 1));
  let mut wake_t: Option<u64> = None;
  let mut timer: Option<Timer> = None;
  let mut held: Vec<KeyCode> = vec![];
  let mut pending: VecDeque<Group> = VecDeque::new();
  let mut failed = false;
  let mut ended = false;
  let mut owed_k = false; let mut owed_t = false;
  let mut prev_interrupt_or_spurious = false;
  let mut last_poll_timed_out = false;
  let mut stale_unread = false;
  let mut events_this_wakeup = 0u32;
  let mut tablet_events = 0u32;
  let mut timer_gen = 0u64;
  let mut seen_pressed: Vec<KeyCode> = vec![];
  let mut sh = H::new();
  let mut first: Option<Violation> = None;
  macro_rules! report { ($label:expr, $at:expr, $detail:expr) => {{
    let lab: &str = $label;
    // what the loop does with the mapper's repeat requests (C09) shows in the same places as C11's timer
    let c09_alias = en.c09 && (lab == "C11-timeout" || lab == "C11-missing-chord" || lab == "C11-unexpected-chord");
    if en.on(lab) { if first.is_none() { first = Some(Violation::new(lab, $at, $detail)); } }
    else if c09_alias { if first.is_none() { first = Some(Violation::new("C09-loop-repeat-state", $at, $detail)); } }
    else { obs.other_property_disagreements += 1; }
  }}; }
  macro_rules! report_cause { ($label:expr, $at:expr, $detail:expr, $cause:expr) => {{
    let lab: &str = $label;
    if en.on(lab) { if first.is_none() { first = Some(Violation::new(lab, $at, $detail).with_cause($cause)); } } else { obs.other_property_disagreements += 1; }
  }}; }
  fn group_str(g: &Group) -> String { if g.kind == Kind::Tablet { format!("release of {}", keys_str(&g.set)) } else { evs_str(&g.evs.iter().cloned().collect::<Vec<_>>()) } }
  fn group_done(g: &Group) -> bool { if g.kind == Kind::Tablet { g.set.is_empty() } else { g.evs.is_empty() } }

  for (i, it) in trace.iter().enumerate() {
    if first.is_some() { break; }
    sh.u(match it { Item::Register => 1, Item::Poll { res, .. } => match res { PollRes::Devices(d) => 10 + d.len() as u64 * 2 + (d.first() == Some(&VDevice::Tablet)) as u64, PollRes::TimedOut => 3, PollRes::Interrupted => 4 },
      Item::NextK { res, end, .. } => if *end { 5 } else if res.is_some() { 6 } else { 7 }, Item::NextT { res, end, .. } => if *end { 8 } else if res.is_some() { 9 } else { 20 }, Item::Send { evs, .. } => 30 + evs.len().min(8) as u64, Item::Fail { .. } => 40 });
    if failed {
      if let Item::Send { evs, .. } = it { report!("C20-send-after-failure", i, format!("after the injected failure the loop still wrote {}", evs_str(evs))); }
      continue;
    }
    if ended { report!("C10-call-after-end", i, format!("driver call after the device reported it is gone: {}", item_str(it))); continue; }
    match it {
      Item::Register => {}
      Item::Fail { .. } => { failed = true; obs.nt_c20 = true; }
      Item::Poll { t_in, timeout, res, t_out, unread } => {
        // before the loop waits again everything it owes must have been written
        while let Some(g) = pending.pop_front() {
          if group_done(&g) { continue; }
          // an optional chord that was not begun: the loop did not consider it due yet
          if g.optional { continue; }
          match g.kind {
            Kind::Step => {
              report!("C10-missing-send", i, format!("the loop went back to waiting without having written the mapper's output {}", group_str(&g)));
              if tablet_events > 0 { report!("C12-not-fresh", i, format!("after a tablet-mode change a freshly started mapper answers {}, the loop wrote nothing", group_str(&g))); report!("C06-loop-not-fresh", i, format!("after a tablet-mode change a freshly started mapper answers {}, the loop wrote nothing", group_str(&g))); }
            }
            Kind::Chord => report!("C11-missing-chord", i, format!("the timer fired but the repeat chord {} was not written before the next wait", group_str(&g))),
            Kind::Tablet => report!("C12-missing-release", i, format!("tablet-mode change but the held keys were not released ({}) before the next wait", group_str(&g))),
          }
          for e in &g.evs { fold1(&mut held, e); }
          for k in &g.set { held.retain(|x| x != k); }
        }
        // "never goes back to WAITING while events it has been notified about are still unread": a look
        // with a zero time-out does not wait; the debt stands until the device has been read dry
        if *timeout != Some(0) {
          if owed_k { report!("C10-undrained", i, "went back to waiting without reading the keyboard until Busy/End after a readiness notification".to_string()); owed_k = false; }
          if owed_t { report!("C10-undrained", i, "went back to waiting without reading the tablet switch until Busy/End after a readiness notification".to_string()); owed_t = false; }
        }
        // timer: the deadline is anchored somewhere between the moment the arming event was read
        // and the moment the loop waits again (the statement does not say when exactly the clock is
        // read); once a poll has pinned it down, every later deadline is exact
        if let Some(t) = timer.as_mut() { if t.anchor_open { t.hi = t_in.saturating_add(t.delay); t.anchor_open = false; } }
        let mut timeout_ok = true;
        let mut overdue_possible = false;
        // a wait that ends before the chord can be due ("waits for at most delay_ms") is allowed,
        // as long as no chord is written before its time
        let mut early_poll = false;
        // (a zero-time-out look made while announced input is still to be read says nothing about where
        // the loop thinks its deadline is)
        let look_with_debt = *timeout == Some(0) && (owed_k || owed_t);
        if let Some(t) = timer.as_mut().filter(|_| !look_with_debt) {
          overdue_possible = t.lo <= *t_in;
          match timeout {
            None => { timeout_ok = false; }
            Some(x) => {
              let d = t_in.saturating_add(*x);
              let exact_ok = *x > 0 && d >= t.lo && d <= t.hi && d > *t_in;
              let overdue_ok = *x <= 1000 && t.lo <= *t_in;
              // delay_ms and interval_ms are whole milliseconds and so is the time-out the kernel takes: a
              // wait rounded up to the next millisecond ends less than 1 ms after the deadline, which stays
              // where it is (no drift) — within the statement's resolution
              let rounded_up_ok = *x > 0 && d > t.hi && d - t.hi < 1000 && *x % 1000 == 0;
              if d < t.lo { early_poll = true; obs.early_polls += 1; }
              else if rounded_up_ok && !overdue_ok { obs.rounded_up_polls += 1; }
              else if !(exact_ok || overdue_ok) { timeout_ok = false; }
              // (a time-out of a whole number of milliseconds may be a rounded one: it does not say where
              // in the interval the loop's own deadline lies, so it pins nothing down)
              else if exact_ok && !overdue_ok { if *x % 1000 != 0 { t.lo = d; t.hi = d; } }
              else if overdue_ok && !exact_ok { t.hi = t.hi.min(*t_in); }
              else { /* both readings possible: keep the interval */ t.hi = t.hi.min(d.max(*t_in)); }
            }
          }
          if overdue_possible { obs.overdue_polls += 1; }
        }
        if !timeout_ok {
          let t = timer.as_ref().unwrap();
          report!("C11-timeout", i, format!("poll at t={}us with timeout {:?}us, but the repeat timer (keys {}, interval {}us) is due between {}us and {}us: expected {}", t_in, timeout, keys_str(&t.keys), t.iv, t.lo, t.hi,
            if t.lo <= *t_in && t.hi <= *t_in { "at most 1000us (overdue)".to_string() } else { format!("{}..{}us", t.lo.saturating_sub(*t_in), t.hi.saturating_sub(*t_in)) }));
        }
        last_poll_timed_out = false; stale_unread = false;
        match res {
          PollRes::Devices(ds) => {
            wake_t = Some(*t_out);
            if ds.contains(&VDevice::Keyboard) { owed_k = true; }
            if ds.contains(&VDevice::Tablet) { owed_t = true; }
            if ds.len() == 2 || prev_interrupt_or_spurious { obs.nt_c10 = true; }
            prev_interrupt_or_spurious = false;
            events_this_wakeup = 0;
          }
          PollRes::TimedOut => {
            last_poll_timed_out = true;
            if timer.is_none() { prev_interrupt_or_spurious = true; }
            // "for as long as no further key event or tablet-mode change arrives": events that reached a
            // device, that the loop was notified about (readiness is reported once) and that it left
            // unread do count as arrived — whatever chord follows this time-out comes "at another time"
            stale_unread = *unread > 0 && timer.is_some() && !tablet;
            if let Some(t) = timer.as_mut() {
              if !tablet {
                if stale_unread && (owed_k || owed_t) {
                  // the loop still has announced input to read (it only looked, with a zero time-out): input
                  // comes first, nothing is owed — and a chord written now is reported when it is written
                } else if early_poll && *t_out < t.lo {
                  // woke up before the deadline can have passed: nothing is owed
                } else {
                  // a look with a zero time-out that the loop made because it still had announced input to
                  // read is not the timer's wait: whether it takes the overdue chord now or after reading is its
                  // own business (begun => owed in full; not begun => not due yet)
                  let optional = (early_poll && *t_out < t.hi) || look_with_debt;
                  let ks: Vec<KeyCode> = t.keys.iter().filter(|k| !held.contains(k)).cloned().collect();
                  if ks.len() != t.keys.len() { obs.chord_key_held += 1; }
                  let mut ch = VecDeque::new();
                  for k in &ks { ch.push_back(Pressed(*k)); }
                  for k in ks.iter().rev() { ch.push_back(Released(*k)); }
                  let empty = ch.is_empty();
                  pending.push_back(Group { kind: Kind::Chord, evs: ch, set: vec![], before: None, tablet_on: false, optional, gen: t.gen });
                  if !optional { t.lo = t.lo.saturating_add(t.iv); t.hi = t.hi.saturating_add(t.iv); }
                  // an optional empty chord leaves no trace either way: the deadline is the old one or the next one
                  else if empty { t.hi = t.hi.saturating_add(t.iv); }
                }
              } else { timer = None; }
            }
          }
          PollRes::Interrupted => { prev_interrupt_or_spurious = true; }
        }
      }
      Item::NextK { res, end, t_out, phantom } => {
        if *end { ended = true; continue; }
        match res {
          None => { owed_k = false; }
          Some(e) => {
            events_this_wakeup += 1;
            if events_this_wakeup >= 2 { obs.nt_c10 = true; }
            if !tablet {
              let sr = mapper.step(e.clone());
              // "releases of keys pressed before or during tablet mode produce no output": after a
              // tablet-mode change, the release of a key whose press the loop has not handed to the
              // mapper since is owed nothing — whatever the mapper under test says
              match e {
                // (an event the reader made up is not a press on the physical keyboard)
                _ if *phantom => { obs.phantom_events += 1; }
                Pressed(k) => { if !seen_pressed.contains(k) { seen_pressed.push(*k); } }
                Released(k) => {
                  if let Some(p) = seen_pressed.iter().position(|x| x == k) { seen_pressed.remove(p); }
                  else if tablet_events > 0 {
                    obs.orphan_releases_after_tablet += 1;
                    if !sr.events.is_empty() { report!("C12-orphan-release", i, format!("{} was pressed before or during tablet mode; its release afterwards must produce no output, the mapper answered {}", key_name(k), evs_str(&sr.events))); }
                  }
                }
              }
              if !sr.events.is_empty() { pending.push_back(Group { kind: Kind::Step, evs: sr.events.into_iter().collect(), set: vec![], before: None, tablet_on: false, optional: false, gen: 0 }); }
              match sr.repeat {
                ResultingRepeat::Repeating { keys, delay_ms, interval_ms } => {
                  let delay = (delay_ms as u32 as u64).saturating_mul(1000); let iv = (interval_ms as u32 as u64).saturating_mul(1000);
                  // the delay runs from some moment between the wake-up in which the arming event was read
                  // (a loop may read the clock once per wake-up, before it reads the events) and the next wait
                  let from = wake_t.unwrap_or(*t_out).min(*t_out);
                  timer_gen += 1; if !unspecified_timing { timer = Some(Timer { keys, lo: from.saturating_add(delay), hi: u64::MAX, iv, delay, anchor_open: true, gen: timer_gen }); }
                }
                ResultingRepeat::Disabled => { if timer.is_some() { obs.timer_disarmed_by_event += 1; } timer = None; }
                ResultingRepeat::NoChange => { if timer.is_some() { obs.nochange_while_armed += 1; } }
              }
            } else { obs.reads_in_tablet_mode += 1; }
          }
        }
      }
      Item::NextT { res, end, .. } => {
        if *end { ended = true; continue; }
        match res {
          None => { owed_t = false; }
          Some(on) => {
            events_this_wakeup += 1;
            if events_this_wakeup >= 2 { obs.nt_c10 = true; }
            // what will be held once everything owed so far has been written
            let mut vheld = held.clone();
            for g in &pending { for e in &g.evs { fold1(&mut vheld, e); } for k in &g.set { vheld.retain(|x| x != k); } }
            if *on && (!vheld.is_empty() || timer.is_some()) { obs.nt_c12 = true; if !vheld.is_empty() { obs.tablet_on_while_held += 1; } if timer.is_some() { obs.tablet_on_while_timer += 1; } }
            tablet = *on;
            timer = None;
            tablet_events += 1;
            seen_pressed.clear();
            // owed: the keys held on the virtual keyboard are released (the statement fixes no order);
            // afterwards "mapping resumes as from a fresh start": the model goes on with a brand-new
            // mapper instead of trusting release_all's reset
            mapper = Mapper::for_layout(l);
            if !vheld.is_empty() { pending.push_back(Group { kind: Kind::Tablet, evs: VecDeque::new(), set: sorted(&vheld), before: None, tablet_on: *on, optional: false, gen: 0 }); }
          }
        }
      }
      Item::Send { evs, t_out: _ } => {
        obs.sends += 1;
        if unspecified_timing && last_poll_timed_out { for e in evs { fold1(&mut held, e); } continue; }
        while matches!(pending.front(), Some(g) if group_done(g) && !(g.kind == Kind::Chord && evs.is_empty() && g.before.is_none())) { pending.pop_front(); }
        if evs.is_empty() {
          // an empty batch is acceptable only as the write of an empty repeat chord
          match pending.front() { Some(g) if g.kind == Kind::Chord && g.evs.is_empty() => { pending.pop_front(); obs.chords += 1; if obs.chords >= 2 { obs.nt_c11 = true; } }
            _ => { if last_poll_timed_out && timer.is_none() && pending.is_empty() { report!("C11-unexpected-chord", i, "wrote [] after a time-out although no repeat chord is due".to_string()); if !tablet && tablet_events > 0 { report!("C12-not-fresh", i, "after a tablet-mode change the loop wrote [] where a freshly started loop writes nothing".to_string()); report!("C06-loop-not-fresh", i, "after a tablet-mode change the loop wrote [] where a freshly started loop writes nothing".to_string()); } if tablet { report!("C12-send-in-tablet", i, "wrote [] while in tablet mode".to_string()); } }
                   // (an empty batch right after a time-out is a repeat chord, due or not: the timer's business)
                   else if last_poll_timed_out { report!("C11-unexpected-chord", i, "wrote [] after a time-out although no repeat chord is due".to_string()); }
                   else { report!("C10-empty-send", i, "an empty batch was written to the virtual keyboard".to_string()); } } }
          continue;
        }
        if evs.len() >= 3 && matches!(pending.front(), Some(g) if g.kind == Kind::Step) { obs.nt_c19 = true; }
        let mut adopt_rest = false;
        for (ei, e) in evs.iter().enumerate() {
          if adopt_rest { fold1(&mut held, e); continue; }
          while matches!(pending.front(), Some(g) if group_done(g)) { pending.pop_front(); }
          // an optional chord that the loop does not begin was not due: what is written is judged against what comes next
          while matches!(pending.front(), Some(g) if g.optional && g.evs.front() != Some(e)) { pending.pop_front(); }
          let kind = match pending.front_mut() {
            None => {
              let rest = evs_str(&evs[ei..]);
              if tablet { report!("C12-send-in-tablet", i, format!("wrote {} while in tablet mode", rest)); }
              else if last_poll_timed_out { report!("C11-unexpected-chord", i, format!("wrote {} after a time-out although no repeat chord is due", rest)); }
              else { report!("C10-unexpected-send", i, format!("wrote {} although the mapper produced nothing (more) to write", rest)); }
              if !tablet && tablet_events > 0 { report!("C12-not-fresh", i, format!("after a tablet-mode change the loop wrote {} where a freshly started loop writes nothing", rest)); report!("C06-loop-not-fresh", i, format!("after a tablet-mode change the loop wrote {} where a freshly started loop writes nothing", rest)); }
              adopt_rest = true; fold1(&mut held, e); continue;
            }
            Some(g) => {
              let ok = match g.kind {
                Kind::Tablet => { if let Released(k) = e { if let Some(p) = g.set.iter().position(|x| x == k) { g.set.remove(p); true } else { false } } else { false } }
                _ => { if g.evs.front() == Some(e) { if g.kind == Kind::Chord && g.before.is_none() { g.before = Some(held.clone()); } g.evs.pop_front(); true } else { false } }
              };
              if ok && g.optional {
                // the loop considered the chord due: from here on it is owed, and the timer moves on
                g.optional = false;
                if let Some(t) = timer.as_mut() { if t.gen == g.gen { t.lo = t.lo.saturating_add(t.iv); t.hi = t.hi.saturating_add(t.iv); } }
              }
              if !ok {
                let exp = group_str(g); let kind = g.kind; let got = evs_str(&evs[ei..]);
                pending.pop_front();
                match kind {
                  Kind::Chord => {
                    let includes_held = matches!(e, Pressed(k) if held.contains(k) && timer.as_ref().map(|t| t.keys.contains(k)).unwrap_or(false));
                    report_cause!("C11-chord", i, format!("repeat chord: expected {} next (repeat keys not already held, pressed in listed order, released in reverse), the loop wrote {} with {} held", exp, got, keys_str(&held)), if includes_held { "chord_includes_held_key" } else { "" });
                  }
                  Kind::Tablet => report!("C12-release", i, format!("tablet-mode change: expected the {}, the loop wrote {} (held {})", exp, got, keys_str(&held))),
                  Kind::Step => {
                    report!("C10-payload", i, format!("expected the mapper's output {} next, the loop wrote {}", exp, got));
                    if tablet_events > 0 { report!("C12-not-fresh", i, format!("after a tablet-mode change a freshly started mapper answers {}, the loop wrote {}", exp, got)); report!("C06-loop-not-fresh", i, format!("after a tablet-mode change a freshly started mapper answers {}, the loop wrote {}", exp, got)); }
                  }
                }
                adopt_rest = true; fold1(&mut held, e); continue;
              }
              g.kind
            }
          };
          // fold the written event strictly
          let mut red = None;
          fold(&mut held, std::slice::from_ref(e), &mut red);
          if let Some(d) = red {
            if kind == Kind::Chord { report!("C11-chord-redundant", i, format!("repeat chord event {}: {}", ev_str(e), d)); }
            else { report!("C19-loop", i, format!("batch {}: {}", evs_str(evs), d)); }
          }
          // group completed?
          if let Some(g) = pending.front() {
            if group_done(g) {
              match g.kind {
                Kind::Chord => {
                  obs.chords += 1;
                  if stale_unread { report!("C11-chord-after-unread-event", i, "a repeat chord was written although further events had reached the devices, had been announced to the loop, and were left unread by it".to_string()); }
                  let before = g.before.clone().unwrap_or_default();
                  if !before.is_empty() { obs.chords_while_held += 1; obs.nt_c11 = true; }
                  if obs.chords >= 2 { obs.nt_c11 = true; }
                  if sorted(&before) != sorted(&held) { report!("C11-not-transient", i, format!("held before the chord {} / after {}", keys_str(&before), keys_str(&held))); }
                }
                Kind::Tablet => { if g.tablet_on && !held.is_empty() { report!("C12-still-held", i, format!("after the tablet-on release batch {} is still held", keys_str(&held))); } }
                Kind::Step => {}
              }
              pending.pop_front();
            }
          }
        }
      }
    }
  }
  obs.shape = sh.fin();
  if first.is_some() { return first; }
  let n = trace.len();
  if failed {
    match result {
      Ok(()) => report!("C20-error-swallowed", n, "the loop returned Ok although a driver call failed".to_string()),
      Err(e) => { if !e.contains(INJECTED) { report!("C20-error-replaced", n, format!("the loop returned a different error: {}", e)); } }
    }
  } else {
    while let Some(g) = pending.pop_front() {
      if group_done(&g) || g.optional { continue; }
      match g.kind {
        Kind::Step => report!("C10-missing-send", n, format!("the mapper's output {} was never written", group_str(&g))),
        Kind::Chord => report!("C11-missing-chord", n, format!("repeat chord {} was never written", group_str(&g))),
        Kind::Tablet => report!("C12-missing-release", n, format!("the {} was never written", group_str(&g))),
      }
    }
    match result {
      Err(e) => { if e.starts_with("simulator: runaway") { report!("C10-runaway", n, "the loop did not stop (trace cap exceeded)".to_string()); } else { report!("C10-spurious-error", n, format!("no I/O failure was injected but the loop returned Err({})", e)); } }
      Ok(()) => { if !ended { report!("C10-no-end", n, "the loop returned Ok although no device reported End".to_string()); } }
    }
  }
  first
}

pub struct Outcome { pub trace: Vec<Item>, pub result: Result<(), String>, pub stats: SimStats, pub tape: Vec<u32>, pub calls: usize, pub sim_us: u64, pub slept_us: u64, pub byte_error: Option<String>, pub byte_notes: Vec<String>, pub digest: u64 }

/// Execute a case: run the real loop on the simulated driver. `record_seed` = Some(seed) fills the
/// tape from the PRNG (the returned tape then belongs to the case); None replays the case's tape.
pub fn execute(case: &CaseB, record_seed: Option<u64>, bytes: Option<&mut dyn ByteLayer>) -> Outcome {
  let tape = match record_seed { Some(s) => Tape::record(s), None => Tape::replay(case.tape.clone()) };
  let mut sim = Sim::new(case, tape, bytes);
  let result = crate::remapping_loop::verif_hooks::run_one_device(&mut sim, case.layout.clone(), false);
  if let Some(b) = sim.bytes.as_ref() { sim.stats.sys_writes = crate::sysseam::writes_seen(b.uinput_fd()) as u64; }
  if let Some(b) = sim.bytes.as_ref() { let (k, t) = b.device_fds(); sim.stats.sys_reads_kbd = crate::sysseam::reads_seen(k) as u64; sim.stats.sys_reads_tab = crate::sysseam::reads_seen(t) as u64; }
  let sim_us = sim_now_us();
  let slept = sim_slept_us();
  if slept > 0 { sim.stats.backoff_sleeps += 1; }
  let mut d = H::new();
  for it in &sim.trace { d.s(&item_str(it)); }
  d.u(result.is_ok() as u64);
  Outcome { trace: sim.trace, result, stats: sim.stats, tape: sim.tape.vals, calls: sim.calls, sim_us, slept_us: slept, byte_error: sim.byte_error, byte_notes: sim.byte_notes, digest: d.fin() }
}
