// One PRNG for everything the simulator decides (splitmix64). No `rand` dependency so
// the repository's Cargo.lock is reused unchanged. Never used in logging paths.

#[derive(Clone, Debug)]
pub struct Rng(pub u64);

impl Rng {
  pub fn new(seed: u64) -> Rng { Rng(seed) }
  pub fn next(&mut self) -> u64 {
    self.0 = self.0.wrapping_add(0x9E3779B97F4A7C15);
    let mut z = self.0;
    z = (z ^ (z >> 30)).wrapping_mul(0xBF58476D1CE4E5B9);
    z = (z ^ (z >> 27)).wrapping_mul(0x94D049BB133111EB);
    z ^ (z >> 31)
  }
  pub fn below(&mut self, n: usize) -> usize { if n == 0 { 0 } else { (self.next() % (n as u64)) as usize } }
  pub fn range(&mut self, lo: usize, hi_incl: usize) -> usize { lo + self.below(hi_incl - lo + 1) }
  pub fn chance(&mut self, num: u64, den: u64) -> bool { self.next() % den < num }
  pub fn pick<T: Clone>(&mut self, xs: &[T]) -> T { xs[self.below(xs.len())].clone() }
}

pub fn mix(a: u64, b: u64) -> u64 {
  let mut r = Rng(a ^ b.rotate_left(32) ^ 0xD6E8FEB86659FD93);
  r.next();
  r.0 = r.0.wrapping_add(b.wrapping_mul(0x9E3779B97F4A7C15));
  r.next()
}

pub fn hash_str(s: &str) -> u64 {
  let mut h: u64 = 0xcbf29ce484222325;
  for b in s.bytes() { h ^= b as u64; h = h.wrapping_mul(0x100000001b3); }
  h
}

/// Order-sensitive 64-bit hasher (FNV-1a over u64 words followed by a finaliser).
#[derive(Clone)]
pub struct H(pub u64);
impl H {
  pub fn new() -> H { H(0xcbf29ce484222325) }
  pub fn u(&mut self, v: u64) { self.0 ^= v; self.0 = self.0.wrapping_mul(0x100000001b3); self.0 ^= self.0 >> 29; }
  pub fn s(&mut self, s: &str) { for b in s.bytes() { self.u(b as u64); } self.u(0xff); }
  pub fn fin(&self) -> u64 { let mut r = Rng(self.0); r.next() }
}
