// World E — end to end: the mapper-level properties (C01–C05, C07, C08, C19) checked on the whole
// path "evdev bytes -> real reader -> shipped RealDriver -> real event loop -> real mapper ->
// real writer -> uinput bytes". The simulator writes the delivered key events as kernel records
// into a pipe (with foreign records — auto-repeat, SYN, MSC, unknown codes — in between and
// arbitrary batching), runs the real loop on the hybrid simulated driver, decodes what arrives on
// the uinput pipe, attributes every written batch to the key event the loop had just read, and
// hands those per-event outputs to the world-A oracles in place of Mapper::step.

use crate::keys::*;
use crate::common::*;
use crate::engine::*;
use crate::gen::*;
use crate::keysim::{CaseA, En, Obs, Precomputed, execute_with, nontrivial};
use crate::loopsim::{CaseB, FaultCfg, Item, PollRes, Outcome};
use crate::worlda::{KeyCampaign, Source};
use crate::rng::{Rng, H};
use serde_json::{json, Value};
use std::panic::{catch_unwind, AssertUnwindSafe};

pub struct E2ECampaign { pub inner: KeyCampaign, pub inner_tablet: Option<KeyCampaign>, pub quick_runs: u64, pub thorough_runs: u64 }

#[derive(Clone, Debug)]
pub struct CaseE { pub a: CaseA, pub b: CaseB }
impl CaseE {
  pub fn json(&self) -> Value { json!({"world": "E", "key_case": self.a.json(), "loop_case": self.b.json()}) }
  pub fn from_json(v: &Value) -> Result<CaseE, String> {
    Ok(CaseE { a: CaseA::from_json(v.get("key_case").ok_or("case: no key_case")?)?, b: CaseB::from_json(v.get("loop_case").ok_or("case: no loop_case")?)? })
  }
}

impl E2ECampaign {
  pub fn new(property: &'static str, source: Source, absorbing: Option<bool>, quick_runs: u64, thorough_runs: u64) -> E2ECampaign {
    let mut inner = KeyCampaign::new(property, source, quick_runs, thorough_runs).absorbing(absorbing);
    inner.resets = false;
    // the repeat request and a twin mapper are not observable end to end
    inner.en.c06 = false; inner.en.c09 = false;
    // timer chords are part of what reaches the virtual keyboard end to end: make Special repeats common
    inner.force_special = true;
    // the oracles that are defined across a release-all also get runs with a tablet switch
    let inner_tablet = if ["C01", "C02", "C03", "C04", "C07", "C19"].contains(&property) {
      let mut t = KeyCampaign::new(property, source, quick_runs, thorough_runs).absorbing(absorbing).resets();
      t.en.c06 = false; t.en.c09 = false; t.force_special = true;
      Some(t)
    } else { None };
    E2ECampaign { inner, inner_tablet, quick_runs, thorough_runs }
  }
  pub fn generate(&self, seed: u64, thorough: bool) -> CaseE {
    let mut st = GenStats::default();
    let mut rng = Rng::new(crate::rng::mix(seed, 0xE2E));
    // swarm: one run in eight is a long burst (70-150 events arriving in a few big batches), one in
    // six holds many keys at once (up to 9), so that steps and batches get long
    if let Some(tc) = &self.inner_tablet { if rng.chance(1, 3) { return self.generate_tablet(tc, seed, thorough, &mut rng); } }
    let burst = rng.chance(1, 8);
    let many_held = rng.chance(1, 6);
    let mut a = if burst || many_held {
      let mut g = self.inner.generate(seed, thorough, &mut st);
      let mut r2 = Rng::new(crate::rng::mix(seed, 0xB0B));
      let mut ho = swarm_hist(&mut r2, thorough, true, false, g.dist);
      if burst { ho.len = r2.range(70, 150); }
      if many_held { ho.max_held = r2.range(5, 9); ho.intents = 3; }
      ho.resets = false;
      g.ops = gen_ops(&mut r2, &g.layout, &ho, &mut st);
      g
    } else { self.inner.generate(seed, thorough, &mut st) };
    a.ops.retain(|o| matches!(o, Op::Ev(_)));
    if a.ops.len() > 150 { a.ops.truncate(150); }
    let mut t = 0u64;
    let mut kbd = vec![];
    let has_special = a.layout.mappings.iter().any(|m| matches!(m.repeat, Repeat::Special { .. }));
    // one run in six has long pauses (seconds to a day) with whatever is held staying held
    let idle_prone = crate::rng::mix(seed, 0x1d1e1) % 6 == 0;
    for o in &a.ops {
      if let Op::Ev(e) = o {
        t += if idle_prone && !has_special && rng.chance(1, 8) { [3_000_000u64, 10_500_000, 61_000_000, 3_600_000_000, 90_000_000_000][rng.below(5)] + rng.below(1_000_000) as u64 } else if burst && !rng.chance(1, 20) { 0 } else if has_special && rng.chance(1, 4) { 150_000 + rng.below(400_000) as u64 } else { match rng.below(10) { 0..=3 => 0, 4..=6 => rng.below(5000) as u64, 7..=8 => 20_000 + rng.below(80_000) as u64, _ => 150_000 + rng.below(400_000) as u64 } };
        kbd.push((t, e.clone()));
      }
    }
    let swarm = |rng: &mut Rng, choices: &[u32]| if rng.chance(1, 2) { 0 } else { rng.pick(choices) };
    let cfg = FaultCfg { p_eintr: swarm(&mut rng, &[3, 10]), p_spurious_timeout: swarm(&mut rng, &[5, 20]), p_spurious_ready: swarm(&mut rng, &[5, 20]), p_latency: swarm(&mut rng, &[10, 40]), p_oversleep: swarm(&mut rng, &[20]), max_interrupts: rng.below(3) as u32 };
    let mut cfg = cfg;
    match rng.below(24) { 0 => cfg.p_spurious_timeout = 90, 1 => cfg.p_spurious_ready = 90, 2 => { cfg.p_eintr = 85; cfg.max_interrupts = 6 + rng.below(5) as u32; } _ => {} }
    let b = CaseB { layout: a.sut_layout().unwrap_or_else(|_| a.layout.clone()), layout_name: a.layout_name.clone(), kbd, tab: vec![], has_tablet: false, cfg, tape: vec![], fail_at: None, extra_ticks: rng.below(3) as u32, kbd_end_at: None, tab_end_at: None, hybrid: true, write_fault: None, read_fault: None, sysread_fault: None, syswrite_fault: None, syswrite_short: None, poll_fault: None, syspoll: rng.chance(1, 2) };
    let mut b = b;
    // one run in eight: a write(2) on the virtual keyboard fails at some point, for good or for a moment
    if rng.chance(1, 8) { b.syswrite_fault = Some((rng.below(40), [0u32, 0, 1, 1, 2, 3][rng.below(6)], rng.below(4) as u8)); }
    CaseE { a, b }
  }
}

impl E2ECampaign {
  /// A run with a tablet switch: reset blocks of the key case become On ... Off on the switch
  /// device, the unseen activity in between becomes key records the loop must ignore.
  fn generate_tablet(&self, tc: &KeyCampaign, seed: u64, thorough: bool, rng: &mut Rng) -> CaseE {
    let mut st = GenStats::default();
    let mut a = tc.generate(seed, thorough, &mut st);
    // every block gets its closing reset (the switch goes off again)
    let mut ops: Vec<Op> = vec![];
    let mut open = false;
    for o in a.ops.drain(..) {
      match &o {
        Op::Reset => { open = !open; ops.push(o); }
        Op::Unseen(_) => { if open { ops.push(o); } }
        Op::Ev(_) => { if open { ops.push(Op::Reset); open = false; } ops.push(o); }
      }
      if ops.len() >= 100 { break; }
    }
    if open { ops.push(Op::Reset); }
    a.ops = ops;
    let has_special = a.layout.mappings.iter().any(|m| matches!(m.repeat, Repeat::Special { .. }));
    let mut t = 0u64;
    let mut kbd = vec![]; let mut tab = vec![];
    let mut on = false;
    let idle_prone = crate::rng::mix(seed, 0x1d1e1) % 6 == 0;
    for o in &a.ops {
      t += if idle_prone && !has_special && rng.chance(1, 8) { [3_000_000u64, 10_500_000, 61_000_000, 3_600_000_000, 90_000_000_000][rng.below(5)] + rng.below(1_000_000) as u64 } else if has_special && rng.chance(1, 5) { 150_000 + rng.below(400_000) as u64 } else { match rng.below(10) { 0..=3 => 0, 4..=6 => rng.below(5000) as u64, 7..=8 => 20_000 + rng.below(80_000) as u64, _ => 150_000 + rng.below(400_000) as u64 } };
      match o { Op::Ev(e) | Op::Unseen(e) => kbd.push((t, e.clone())), Op::Reset => { on = !on; tab.push((t, on)); } }
    }
    let swarm = |rng: &mut Rng, choices: &[u32]| if rng.chance(1, 2) { 0 } else { rng.pick(choices) };
    let cfg = FaultCfg { p_eintr: swarm(rng, &[3, 10]), p_spurious_timeout: swarm(rng, &[5, 20]), p_spurious_ready: swarm(rng, &[5, 20]), p_latency: swarm(rng, &[10, 40]), p_oversleep: swarm(rng, &[20]), max_interrupts: rng.below(3) as u32 };
    let b = CaseB { layout: a.sut_layout().unwrap_or_else(|_| a.layout.clone()), layout_name: a.layout_name.clone(), kbd, tab, has_tablet: true, cfg, tape: vec![], fail_at: None, extra_ticks: rng.below(3) as u32, kbd_end_at: None, tab_end_at: None, hybrid: true, write_fault: None, read_fault: None, sysread_fault: None, syswrite_fault: None, syswrite_short: None, poll_fault: None, syspoll: rng.chance(1, 2) };
    let mut b = b;
    // one run in eight: a write(2) on the virtual keyboard fails at some point, for good or for a moment
    if rng.chance(1, 8) { b.syswrite_fault = Some((rng.below(40), [0u32, 0, 1, 1, 2, 3][rng.below(6)], rng.below(4) as u8)); }
    CaseE { a, b }
  }
}

/// With a tablet switch the order in which the loop read the events of the two devices is the
/// order that counts (C12 is defined on it): the effective op sequence and what was written in
/// answer to each op are taken from the trace. Writes are charged to the event read just before
/// them; batches after a time-out are timer chords.
pub fn ops_from_trace(trace: &[Item]) -> (Vec<Op>, Vec<Vec<Event>>, Vec<Vec<Event>>) {
  let mut ops: Vec<Op> = vec![]; let mut outs: Vec<Vec<Event>> = vec![]; let mut chords: Vec<Vec<Event>> = vec![];
  let mut tablet = false; let mut after_timeout = false;
  for it in trace {
    match it {
      Item::Poll { res, .. } => { after_timeout = matches!(res, PollRes::TimedOut); }
      // an event the reader made up is no event of the physical keyboard: whatever it causes is charged to the op before it
      Item::NextK { res: Some(_), phantom: true, .. } => { after_timeout = false; }
      Item::NextK { res: Some(e), .. } => { after_timeout = false; ops.push(if tablet { Op::Unseen(e.clone()) } else { Op::Ev(e.clone()) }); outs.push(vec![]); chords.push(vec![]); }
      Item::NextT { res: Some(on), .. } => { after_timeout = false; tablet = *on; ops.push(Op::Reset); outs.push(vec![]); chords.push(vec![]); }
      Item::Send { evs, .. } => {
        if let Some(last) = outs.len().checked_sub(1) { if after_timeout { chords[last].extend(evs.iter().cloned()); } else { outs[last].extend(evs.iter().cloned()); } }
      }
      _ => {}
    }
  }
  (ops, outs, chords)
}

/// Attribute what the loop wrote to the delivered key events. The written events (timer chords
/// aside) are taken as one stream and dealt out to the events the loop read, in reading order,
/// each read event receiving as many events as a reference mapper fed the same reads emits for it —
/// so it does not matter whether the loop writes a step's output before or after reading further
/// events, or how it cuts the stream into write calls. Whatever a read event that was never
/// delivered (a phantom) receives is charged to the delivered step before it. Returns per-event
/// outputs and a note when the read sequence differs from the delivered one.
pub fn attribute(layout: &Layout, delivered: &[Event], trace: &[Item]) -> (Vec<Vec<Event>>, Vec<Vec<Event>>, Option<String>) {
  let mut steps: Vec<Vec<Event>> = vec![vec![]; delivered.len()];
  let mut chords: Vec<Vec<Event>> = vec![vec![]; delivered.len()];
  let mut note = None;
  // the reads, each tagged with the delivered step it is charged to
  let mut reads: Vec<(Event, usize)> = vec![];
  let mut next = 0usize;
  let mut cur = 0usize;
  let mut written: Vec<Event> = vec![];
  let mut after_timeout = false;
  for it in trace {
    match it {
      Item::Poll { res, .. } => { after_timeout = matches!(res, PollRes::TimedOut); }
      Item::NextK { res: Some(e), .. } => {
        after_timeout = false;
        if next < delivered.len() && *e == delivered[next] { cur = next; next += 1; }
        else if note.is_none() { note = Some(format!("the loop read {} where the delivered stream has {}", ev_str(e), delivered.get(next).map(ev_str).unwrap_or("nothing more".into()))); }
        reads.push((e.clone(), cur));
      }
      Item::Send { evs, .. } => {
        // a batch after a time-out is a timer chord: C11 owns its content, here it only moves the output state
        if !after_timeout { written.extend(evs.iter().cloned()); } else if let Some(c) = chords.get_mut(cur) { c.extend(evs.iter().cloned()); }
      }
      _ => {}
    }
  }
  if next < delivered.len() && note.is_none() { note = Some(format!("the loop never read {} (event {} of {})", ev_str(&delivered[next]), next, delivered.len())); }
  if steps.is_empty() { return (steps, chords, note); }
  let mut reference = crate::key_transforms::Mapper::for_layout(layout);
  let mut pos = 0usize;
  for (ri, (e, charged)) in reads.iter().enumerate() {
    let n = reference.step(e.clone()).events.len();
    let take = if ri + 1 == reads.len() { written.len() - pos.min(written.len()) } else { n.min(written.len() - pos.min(written.len())) };
    let end = (pos + take).min(written.len());
    steps[*charged].extend(written[pos.min(written.len())..end].iter().cloned());
    pos = end;
  }
  if reads.is_empty() && !written.is_empty() { steps[0].extend(written.iter().cloned()); }
  (steps, chords, note)
}

pub fn execute_e(case: &CaseE, en: &En, record: Option<u64>, obs: &mut Obs) -> Result<(Option<Violation>, Outcome), String> {
  let mut c = case.b.clone();
  // the loop runs what the tree under test makes of the layout as written
  if case.a.written.is_some() { c.layout = case.a.sut_layout()?; }
  let sut_layout = c.layout.clone();
  let out = catch_unwind(AssertUnwindSafe(|| { let mut bl = crate::wiresim::PipeLayer::new(c.has_tablet); crate::loopsim::execute(&c, record, Some(&mut bl)) })).map_err(|e| panic_msg(&e))?;
  // a run that hit the simulator's trace cap was cut short by an unplug the history knows nothing
  // about (fast timers under a readiness storm can do that): it is not evaluated
  if out.stats.trace_cap_hit > 0 { return Ok((None, out)); }
  // A run in which a write to the virtual keyboard failed (and the failure was reported) ends there.
  // The steps completed before the failing one are judged as usual; the failing step itself is not a
  // step the statements speak about, except for what a half-written no-repeat step leaves behind.
  let fail_at = out.trace.iter().position(|it| matches!(it, Item::Fail { .. }));
  let cut = match fail_at { None => out.trace.len(), Some(f) => out.trace[..f].iter().rposition(|it| matches!(it, Item::NextK { res: Some(_), .. } | Item::NextT { res: Some(_), .. })).unwrap_or(0) };
  let trace = &out.trace[..cut];
  // A no-repeat step that a *reported* write failure cut between a press and its release leaves a key
  // down. That is counted in the evidence, not judged: no statement says that a batch goes out in one
  // write call, and a writer that sends one record per call is among the property-preserving variants
  // (RF6-c); see DESIGN.md 10, round 6.
  let partial = |v: Option<Violation>| -> Option<Violation> { v };
  if case.b.has_tablet {
    let (ops, steps, chords) = ops_from_trace(trace);
    let mut pre = Precomputed { steps, chords, i: 0, per_op: true };
    let a = CaseA { layout: case.a.layout.clone(), layout_name: case.a.layout_name.clone(), dist: case.a.dist, ops, written: case.a.written.clone() };
    let en2 = *en;
    let v = catch_unwind(AssertUnwindSafe(|| execute_with(&a, &en2, obs, &mut pre))).map_err(|e| format!("oracle panicked: {}", panic_msg(&e)))?;
    let v = partial(v);
    return Ok((v, out));
  }
  let mut delivered: Vec<Event> = case.a.ops.iter().filter_map(|o| if let Op::Ev(e) = o { Some(e.clone()) } else { None }).collect();
  let mut a = case.a.clone();
  if fail_at.is_some() {
    // the delivered events whose steps were completed before the failure
    let done = trace.iter().filter(|it| matches!(it, Item::NextK { res: Some(_), phantom: false, .. })).count().min(delivered.len());
    delivered.truncate(done);
    let mut seen = 0usize; a.ops.retain(|o| if let Op::Ev(_) = o { seen += 1; seen <= done } else { seen < done });
  }
  let (steps, chords, _note) = attribute(&sut_layout, &delivered, trace);
  let mut pre = Precomputed { steps, chords, i: 0, per_op: false };
  let en2 = *en;
  let v = catch_unwind(AssertUnwindSafe(|| execute_with(&a, &en2, obs, &mut pre))).map_err(|e| format!("oracle panicked: {}", panic_msg(&e)))?;
  let v = partial(v);
  Ok((v, out))
}

pub fn minimise_e(case: &CaseE, en: &En, label: &str) -> (CaseE, Violation, u64) {
  let mut best = case.clone(); let mut execs = 0u64;
  let same = |c: &CaseE, execs: &mut u64| -> Option<Violation> { *execs += 1; let mut o = Obs::default(); match execute_e(c, en, None, &mut o) { Ok((Some(v), _)) if v.label == label => Some(v), _ => None } };
  let mut cur = match same(&best, &mut execs) { Some(v) => v, None => return (best, Violation::new(label, 0, "not reproducible during minimisation".into()), execs) };
  loop {
    let mut progress = false;
    { let mut c = best.clone(); c.b.tape = vec![]; if c.b.tape != best.b.tape { if let Some(v) = same(&c, &mut execs) { best = c; cur = v; progress = true; } } }
    if cur.step + 1 < best.a.ops.len() { let mut c = best.clone(); c.a.ops.truncate(cur.step + 1); c.b.kbd.truncate(cur.step + 1); if let Some(v) = same(&c, &mut execs) { best = c; cur = v; progress = true; } }
    let mut i = best.a.ops.len();
    while i > 0 && execs < 1500 { i -= 1; let mut c = best.clone(); c.a.ops.remove(i); if i < c.b.kbd.len() { c.b.kbd.remove(i); } if let Some(v) = same(&c, &mut execs) { best = c; cur = v; progress = true; } }
    if best.a.written.is_some() { let mut c = best.clone(); c.a.written = None; c.b.layout = c.a.layout.clone(); if let Some(v) = same(&c, &mut execs) { best = c; cur = v; progress = true; } }
    let mut i = 0;
    while best.a.written.is_none() && i < best.a.layout.mappings.len() && execs < 1500 { let mut c = best.clone(); c.a.layout.mappings.remove(i); c.b.layout = c.a.layout.clone(); if let Some(v) = same(&c, &mut execs) { best = c; cur = v; progress = true; } else { i += 1; } }
    { let mut c = best.clone(); for (t, _) in c.b.kbd.iter_mut() { *t = 0; } if c.b.kbd != best.b.kbd && execs < 1500 { if let Some(v) = same(&c, &mut execs) { best = c; cur = v; progress = true; } } }
    if !progress || execs >= 1500 { break; }
  }
  (best, cur, execs)
}

impl Campaign for E2ECampaign {
  fn name(&self) -> String { format!("e2e-{}", match self.inner.source { Source::Shipped => "shipped", Source::Random => "random", Source::Dist => "dist", Source::Empty => "empty" }) }
  fn world(&self) -> &'static str { "E" }
  fn runs(&self, thorough: bool) -> u64 { if thorough { self.thorough_runs } else { self.quick_runs } }
  fn declare(&self, acc: &mut Acc) {
    for f in ["chan_duplicate_press", "chan_spurious_release", "chan_dropped_event", "io_latency_in_call", "spurious_readiness", "signal_interrupts_poll", "arrival_during_drain"] { acc.declare_fault(f); }
    acc.declare_probe("real_driver_polls_cross_checked"); acc.declare_probe("wakeup_with_two_or_more_events"); acc.declare_probe("polls_through_the_shipped_real_driver_poll"); acc.declare_fault("wait_syscall_interrupted_eintr");
  }
  fn run(&self, seed: u64, idx: u64, ctx: &mut Ctx) -> RunResult {
    let mut case = self.generate(seed, ctx.thorough);
    let mut obs = Obs::default();
    obs.collect_states = true;
    let rec = crate::rng::mix(seed, 0x7a9e);
    let (v, out) = match execute_e(&case, &self.inner.en, Some(rec), &mut obs) {
      Ok(x) => x,
      Err(p) => { return RunResult { failure: None, nontrivial: false, case_hash: case.a.hash(), state_hashes: vec![], sample: None, digest: 0, sut_panic: Some(p), harness_error: None, evals: 1 }; }
    };
    case.b.tape = out.tape.clone();
    let harness_error = None;
    // see worldb: a disagreement between record and replay means the tree under test is not
    // deterministic; it is counted and reported, the verdict stands on what each run did
    let mut soft_mismatch = 0u64;
    if idx % 32 == 0 {
      let mut o2 = Obs::default();
      match execute_e(&case, &self.inner.en, None, &mut o2) { Ok((v2, out2)) => { if out2.digest != out.digest || v2.is_some() != v.is_some() { soft_mismatch += 1; } } Err(_) => { soft_mismatch += 1; } }
    }
    let acc = &mut *ctx.acc;
    acc.count("runs_not_replaying_exactly", soft_mismatch);
    let s = &out.stats;
    acc.fault("io_latency_in_call", s.latency); acc.fault("spurious_readiness", s.spurious_ready); acc.fault("signal_interrupts_poll", s.eintr); acc.fault("arrival_during_drain", s.arrival_during_drain);
    acc.probe_n("polls_through_the_shipped_real_driver_poll", s.sys_polls_through_real_driver); acc.fault("wait_syscall_interrupted_eintr", s.sys_wait_eintr); acc.fault("wait_syscall_fabricated_readiness", s.sys_fabricated_ready); acc.fault("wait_syscall_stale_edge_dropped", s.sys_stale_dropped);
    acc.probe_n("real_driver_polls_cross_checked", s.real_polls_compared); acc.probe_n("wakeup_with_two_or_more_events", s.multi_event_wakeups);
    acc.fault("os_write_failed_at_nth_write_syscall", s.os_syswrite_fault.iter().sum::<u64>()); acc.probe_n("failed_write_left_partial_frame_on_device", s.syswrite_partial_frames); acc.probe_n("failed_write_cut_a_no_repeat_step_between_press_and_release", out.byte_notes.iter().filter(|m| m.starts_with("[partial-step]")).count() as u64);
    acc.count("runs_cut_short_by_the_trace_cap_and_not_evaluated", out.stats.trace_cap_hit.min(1));
    acc.count("steps", obs.steps); acc.count("sim_us", out.sim_us); acc.count("mappings_fired", obs.fired); acc.count("driver_calls", out.trace.len() as u64);
    let delivered: Vec<Event> = case.a.ops.iter().filter_map(|o| if let Op::Ev(e) = o { Some(e.clone()) } else { None }).collect();
    if attribute(&case.a.layout, &delivered, &out.trace).2.is_some() { acc.count("runs_where_the_read_sequence_differs_from_the_delivered_one", 1); }
    let nt = nontrivial(self.inner.property, &obs);
    let mut hh = H::new(); hh.u(case.a.hash()); hh.u(case.b.hash());
    let sample = if ctx.want_sample { Some(case.json()) } else { None };
    let failure = v.map(|v| {
      let en = self.inner.en; let c2 = case.clone(); let label = v.label.clone();
      RawFailure { violation: Violation { label: v.label.clone(), step: v.step, detail: format!("end to end (bytes -> reader -> loop -> writer -> bytes): {}", v.detail), cause: v.cause.clone() }, case: case.json(),
        shrink: Box::new(move || { let (m, mv, n) = minimise_e(&c2, &en, &label); (m.json(), mv, n) }) }
    });
    RunResult { failure, nontrivial: nt, case_hash: hh.fin(), state_hashes: obs.state_hashes, sample, digest: crate::rng::mix(out.digest, obs.digest), sut_panic: None, harness_error, evals: 1 }
  }
  fn replay(&self, case: &Value) -> Result<Option<Violation>, String> {
    let c = CaseE::from_json(case)?; let mut o = Obs::default();
    execute_e(&c, &self.inner.en, None, &mut o).map(|(v, out)| {
      if std::env::var("VERIF_DUMP_TRACE").is_ok() { for (i, it) in out.trace.iter().enumerate() { eprintln!("  trace[{}] {}", i, crate::loopsim::item_str(it)); } eprintln!("  result {:?} byte_error {:?} stats {:?}", out.result, out.byte_error, out.stats); }
      v
    })
  }
  fn rule(&self) -> String {
    format!("end to end: layout and delivered key history as in world A (no reset blocks; Special repeats forced on; one run in eight a burst of 70-150 events in a few big batches, one in six with up to 9 keys held); every delivered event is written as a kernel input_event record into a pipe at a seeded time (gaps 0 / <5 ms / 20-100 ms / 150-550 ms), with 0-2 foreign records (SYN, MSC scan, value-2 auto-repeat, unknown codes, LED/REL, odd values) before and after it; the real loop runs on the hybrid simulated driver (shipped RealDriver, real reader and writer on pipes; latency, spurious readiness, interruptions swarm-style); the events a consumer sees in the bytes on the uinput pipe are dealt out, as one stream, to the key events the loop read (as many as a reference mapper emits for each); batches written after a time-out are timer chords: their content is left to C11, their effect on what is held is applied; the world-A oracle of this property is evaluated on those per-event outputs; distinct by hash of (layout, ops, arrival times, tape); non-trivial = {}", crate::worlda::nontrivial_rule(self.inner.property))
  }
  fn components(&self) -> Value {
    json!({"real": ["dev_input_rw::DevInputReader::next", "remapping_loop::RealDriver (hook H3: next_keyboard, send, register_poll, zero-timeout poll)", "remapping_loop::do_remapping_loop_one_device (hook H1)", "key_transforms::Mapper inside the loop", "dev_input_rw::DevInputWriter::send (hook H2)", "JSON parser + converter"],
           "stub": ["kernel evdev node and uinput consumer (non-blocking pipes)", "when poll returns (discrete-event clock)", "Instant::now / thread::sleep"],
           "trusted": ["reference control model R where the oracle uses it", "attribution of written batches to the key event read just before"]})
  }
}
