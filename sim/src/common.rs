// Shared vocabulary: keys, ops, folds, layout sources, JSON (de)serialisation of cases.

use crate::keys::*;
use crate::rng::H;
use serde_json::{json, Value};

pub fn is_mod(k: &KeyCode) -> bool {
  use KeyCode::*;
  matches!(k, LEFTSHIFT | RIGHTSHIFT | LEFTMETA | RIGHTMETA | LEFTCTRL | RIGHTCTRL | LEFTALT | RIGHTALT)
}

pub fn key_name(k: &KeyCode) -> String {
  match serde_json::to_value(k) { Ok(Value::String(s)) => s, _ => format!("{:?}", k) }
}
pub fn key_from(s: &str) -> Result<KeyCode, String> {
  serde_json::from_value::<KeyCode>(Value::String(s.to_string())).map_err(|e| format!("bad key {:?}: {}", s, e))
}
pub fn ev_str(e: &Event) -> String { match e { Pressed(k) => format!("+{}", key_name(k)), Released(k) => format!("-{}", key_name(k)) } }
pub fn ev_from(s: &str) -> Result<Event, String> {
  if let Some(r) = s.strip_prefix('+') { Ok(Pressed(key_from(r)?)) }
  else if let Some(r) = s.strip_prefix('-') { Ok(Released(key_from(r)?)) }
  else { Err(format!("bad event {:?}", s)) }
}
pub fn evs_json(evs: &[Event]) -> Value { Value::Array(evs.iter().map(|e| json!(ev_str(e))).collect()) }
pub fn evs_str(evs: &[Event]) -> String { format!("[{}]", evs.iter().map(ev_str).collect::<Vec<_>>().join(" ")) }
pub fn keys_str(ks: &[KeyCode]) -> String { format!("{{{}}}", ks.iter().map(key_name).collect::<Vec<_>>().join(",")) }
pub fn ev_key(e: &Event) -> KeyCode { match e { Pressed(k) | Released(k) => *k } }

/// One operation of a world-A case.
#[derive(Clone, Debug, PartialEq, Eq)]
pub enum Op {
  /// a delivered key event (possibly ill-formed)
  Ev(Event),
  /// Mapper::release_all (what the loop does on a tablet-mode change)
  Reset,
  /// physical activity that is not delivered (keys moving while in tablet mode); only
  /// meaningful directly after a Reset, ignored elsewhere
  Unseen(Event),
}
pub fn op_str(o: &Op) -> String { match o { Op::Ev(e) => ev_str(e), Op::Reset => "RESET".into(), Op::Unseen(e) => format!("~{}", ev_str(e)) } }
pub fn op_from(s: &str) -> Result<Op, String> {
  if s == "RESET" { Ok(Op::Reset) } else if let Some(r) = s.strip_prefix('~') { Ok(Op::Unseen(ev_from(r)?)) } else { Ok(Op::Ev(ev_from(s)?)) }
}

pub fn layout_json(l: &Layout) -> Value { serde_json::to_value(l).unwrap() }
pub fn layout_from_json(v: &Value) -> Result<Layout, String> { serde_json::from_value(v.clone()).map_err(|e| format!("bad layout: {}", e)) }

pub fn hash_layout(h: &mut H, l: &Layout) {
  h.u(l.mappings.len() as u64);
  for m in &l.mappings {
    h.u(0xA1); for k in &m.from { h.u(*k as u64); }
    h.u(0xA2); for k in &m.to { h.u(*k as u64); }
    h.u(0xA3); for k in &m.absorbing { h.u(*k as u64); }
    match &m.repeat {
      Repeat::Normal => h.u(0xB0), Repeat::Disabled => h.u(0xB1),
      Repeat::Special { keys, delay_ms, interval_ms } => { h.u(0xB2); for k in keys { h.u(*k as u64); } h.u(*delay_ms as u64); h.u(*interval_ms as u64); }
    }
  }
}
pub fn hash_ev(h: &mut H, e: &Event) { match e { Pressed(k) => h.u(0x1000 + *k as u64), Released(k) => h.u(0x2000 + *k as u64) } }
pub fn hash_ops(h: &mut H, ops: &[Op]) {
  for o in ops { match o { Op::Ev(e) => hash_ev(h, e), Op::Reset => h.u(0x3000), Op::Unseen(e) => { h.u(0x4000); hash_ev(h, e); } } }
}

/// Fold emitted events into the set of keys held on the virtual keyboard. Tolerant: a press of a
/// down key or a release of an up key changes nothing; the first such event is reported in `red`.
pub fn fold(out: &mut Vec<KeyCode>, evs: &[Event], red: &mut Option<String>) {
  for e in evs {
    match e {
      Pressed(k) => { if out.contains(k) { if red.is_none() { *red = Some(format!("press of key {} that is already down (held {})", key_name(k), keys_str(out))); } } else { out.push(*k); } }
      Released(k) => { if !out.contains(k) { if red.is_none() { *red = Some(format!("release of key {} that is up (held {})", key_name(k), keys_str(out))); } } else { out.retain(|x| x != k); } }
    }
  }
}
pub fn fold1(out: &mut Vec<KeyCode>, e: &Event) {
  match e { Pressed(k) => { if !out.contains(k) { out.push(*k); } } Released(k) => { out.retain(|x| x != k); } }
}
pub fn sorted(v: &[KeyCode]) -> Vec<KeyCode> { let mut a = v.to_vec(); a.sort(); a }

pub fn layout_keys(l: &Layout) -> Vec<KeyCode> {
  let mut s = std::collections::BTreeSet::new();
  for m in &l.mappings {
    for k in &m.from { s.insert(*k); }
    for k in &m.to { s.insert(*k); }
    for k in &m.absorbing { s.insert(*k); }
    if let Repeat::Special { keys, .. } = &m.repeat { for k in keys { s.insert(*k); } }
  }
  s.into_iter().collect()
}
pub fn trigger_keys(l: &Layout) -> Vec<KeyCode> {
  let mut s = std::collections::BTreeSet::new();
  for m in &l.mappings { for k in &m.from { s.insert(*k); } }
  s.into_iter().collect()
}

/// Load a layout text through the real parser and converter (what load_layout_from_file does
/// after reading the file).
pub fn load_text(text: &str) -> Result<Layout, String> {
  let v: Value = serde_json::from_str(text).map_err(|e| format!("json: {}", e))?;
  load_value(&v)
}
pub fn load_value(v: &Value) -> Result<Layout, String> {
  crate::fancy_layout_interpreting::convert(&crate::layout_parsing_formatting::parse_layout_from_json(v)?)
}

/// The five built-in layouts, sorted by name (the map they live in is a HashMap).
pub fn builtin_layout_texts() -> Vec<(String, String)> {
  let mut v: Vec<(String, String)> = crate::default_fancy_layouts::DEFAULT_LAYOUTS.iter().map(|(n, t)| (n.clone(), t.to_string())).collect();
  v.sort();
  v
}

/// JSON examples from the repository's README (every ```json block; a bare mapping is wrapped
/// into a one-mapping layout).
pub fn readme_layout_texts() -> Vec<(String, String)> {
  let repo = env!("VERIF_REPO_BUILT");
  let text = std::fs::read_to_string(format!("{}/README.md", repo)).unwrap_or_default();
  let mut res = vec![];
  let mut cur: Option<String> = None;
  let mut n = 0;
  for line in text.lines() {
    if let Some(buf) = cur.as_mut() {
      if line.trim_start().starts_with("```") {
        let body = cur.take().unwrap();
        if let Ok(v) = serde_json::from_str::<Value>(&body) {
          let wrapped = if v.get("mappings").is_some() { v } else { json!({"mappings": [v]}) };
          n += 1;
          res.push((format!("readme-{}", n), serde_json::to_string(&wrapped).unwrap()));
        }
      } else { buf.push_str(line); buf.push('\n'); }
    } else if line.trim_start().starts_with("```json") { cur = Some(String::new()); }
  }
  res
}

pub struct NamedLayout { pub name: String, pub text: String, pub layout: Layout }

pub fn shipped_layouts() -> Vec<NamedLayout> {
  let mut res = vec![];
  for (n, t) in builtin_layout_texts().into_iter().chain(readme_layout_texts().into_iter()) {
    match load_text(&t) { Ok(l) => res.push(NamedLayout { name: n, text: t, layout: l }), Err(_) => {} }
  }
  res
}

pub fn panic_msg(e: &Box<dyn std::any::Any + Send>) -> String {
  e.downcast_ref::<String>().cloned().or_else(|| e.downcast_ref::<&str>().map(|s| s.to_string())).unwrap_or_else(|| "?".into())
}

/// Every key code the tool knows (the enum's FromPrimitive over the kernel's code space).
pub fn all_known_keys() -> Vec<KeyCode> {
  use num_traits::FromPrimitive;
  let mut v = vec![];
  for c in 0u16..0x400 { if let Some(k) = <KeyCode as FromPrimitive>::from_u16(c) { v.push(k); } }
  v
}

lazy_static::lazy_static! {
  static ref NON_MOD_KEYS: Vec<KeyCode> = all_known_keys().into_iter().filter(|k| !is_mod(k)).collect();
  static ref MOD_KEYS: Vec<KeyCode> = all_known_keys().into_iter().filter(|k| is_mod(k)).collect();
}

/// A random injective renaming of the keys of a case over the whole key-code space: modifiers are
/// permuted among the eight modifiers, every other key is sent to some other non-modifier key
/// (`keep` stays fixed, and nothing is sent into it). The mapper is supposed to be indifferent to
/// which key codes play which role, so all oracles apply unchanged; what the renaming adds is
/// coverage of the key-code dimension (ranges, parities, aliasing of codes).
pub fn random_renaming(rng: &mut crate::rng::Rng, used: &[KeyCode], keep: &[KeyCode]) -> std::collections::HashMap<KeyCode, KeyCode> {
  let mut map = std::collections::HashMap::new();
  let mut mods: Vec<KeyCode> = MOD_KEYS.clone();
  for i in (1..mods.len()).rev() { let j = rng.below(i + 1); mods.swap(i, j); }
  for (i, m) in MOD_KEYS.iter().enumerate() { map.insert(*m, mods[i]); }
  let mut taken: Vec<KeyCode> = keep.to_vec();
  for k in used {
    if is_mod(k) || keep.contains(k) { continue; }
    if map.contains_key(k) { continue; }
    // now and then choose the code 512 above/below an already chosen one (codes that collide in
    // fixed-size tables)
    let mut cand = None;
    if !taken.is_empty() && rng.chance(1, 4) {
      use num_traits::FromPrimitive;
      let base = rng.pick(&taken) as i32;
      for delta in [512i32, -512, 256, -256] { if let Some(c) = <KeyCode as FromPrimitive>::from_i32(base + delta) { if !is_mod(&c) && !taken.contains(&c) { cand = Some(c); break; } } }
    }
    let mut guard = 0;
    while cand.is_none() && guard < 100 { guard += 1; let c = rng.pick(&NON_MOD_KEYS); if !taken.contains(&c) { cand = Some(c); } }
    let c = cand.unwrap_or(*k);
    taken.push(c);
    map.insert(*k, c);
  }
  for k in keep { map.insert(*k, *k); }
  map
}
pub fn rename_key(map: &std::collections::HashMap<KeyCode, KeyCode>, k: &KeyCode) -> KeyCode { *map.get(k).unwrap_or(k) }
pub fn rename_event(map: &std::collections::HashMap<KeyCode, KeyCode>, e: &Event) -> Event { match e { Pressed(k) => Pressed(rename_key(map, k)), Released(k) => Released(rename_key(map, k)) } }
pub fn rename_layout(map: &std::collections::HashMap<KeyCode, KeyCode>, l: &Layout) -> Layout {
  let r = |v: &Vec<KeyCode>| v.iter().map(|k| rename_key(map, k)).collect::<Vec<_>>();
  Layout { mappings: l.mappings.iter().map(|m| Mapping { from: r(&m.from), to: r(&m.to), absorbing: r(&m.absorbing),
    repeat: match &m.repeat { Repeat::Special { keys, delay_ms, interval_ms } => Repeat::Special { keys: r(keys), delay_ms: *delay_ms, interval_ms: *interval_ms }, other => other.clone() } }).collect() }
}
