// Campaign runner: fixed run counts, one derived seed per run, order-insensitive aggregation,
// replay files, known findings, evidence.

use crate::rng::{mix, hash_str};
use serde_json::{json, Value, Map};
use std::collections::BTreeMap;
use std::sync::atomic::{AtomicU64, AtomicBool, Ordering};
use std::sync::Mutex;
use std::time::Instant;

pub const DEFAULT_SEED: u64 = 20260926;

#[derive(Clone, Debug)]
pub struct Violation {
  /// violation class, e.g. "C05c"; stable across minimisation
  pub label: String,
  /// index of the step / trace item at which it was detected
  pub step: usize,
  pub detail: String,
  /// narrow, machine-readable cause used by known-finding signatures (may be empty)
  pub cause: String,
}
impl Violation {
  pub fn new(label: &str, step: usize, detail: String) -> Violation { Violation { label: label.to_string(), step, detail, cause: String::new() } }
  pub fn with_cause(mut self, c: &str) -> Violation { self.cause = c.to_string(); self }
  pub fn json(&self) -> Value { json!({"label": self.label, "step": self.step, "detail": self.detail, "cause": self.cause}) }
}

/// Per-worker accumulator of counters. Merged by summation, so the totals do not depend on the
/// number of workers or on scheduling.
#[derive(Default, Clone)]
pub struct Acc {
  pub counters: BTreeMap<&'static str, u64>,
  pub faults: BTreeMap<&'static str, u64>,
  pub probes: BTreeMap<&'static str, u64>,
}
impl Acc {
  pub fn count(&mut self, k: &'static str, n: u64) { let c = self.counters.entry(k).or_insert(0); *c = c.saturating_add(n); }
  pub fn fault(&mut self, k: &'static str, n: u64) { if n > 0 { *self.faults.entry(k).or_insert(0) += n; } }
  pub fn probe(&mut self, k: &'static str) { *self.probes.entry(k).or_insert(0) += 1; }
  /// adds to a probe; a zero does not create an undeclared probe (declared ones report their zero)
  pub fn probe_n(&mut self, k: &'static str, n: u64) { if n > 0 || self.probes.contains_key(k) { *self.probes.entry(k).or_insert(0) += n; } }
  pub fn declare_probe(&mut self, k: &'static str) { self.probes.entry(k).or_insert(0); }
  pub fn declare_fault(&mut self, k: &'static str) { self.faults.entry(k).or_insert(0); }
  fn merge(&mut self, o: &Acc) {
    for (k, v) in &o.counters { let c = self.counters.entry(k).or_insert(0); *c = c.saturating_add(*v); }
    for (k, v) in &o.faults { *self.faults.entry(k).or_insert(0) += v; }
    for (k, v) in &o.probes { *self.probes.entry(k).or_insert(0) += v; }
  }
}

/// Conservative distinct counter: a bitmap indexed by hash; the number of set bits never exceeds
/// the true number of distinct values (collisions only under-count).
pub struct Distinct { bits: Vec<AtomicU64>, mask: u64 }
impl Distinct {
  pub fn new(log2_bits: u32) -> Distinct {
    let n = 1usize << (log2_bits - 6);
    Distinct { bits: (0..n).map(|_| AtomicU64::new(0)).collect(), mask: (1u64 << log2_bits) - 1 }
  }
  pub fn insert(&self, h: u64) {
    let i = h & self.mask;
    let w = (i >> 6) as usize; let b = 1u64 << (i & 63);
    if self.bits[w].load(Ordering::Relaxed) & b == 0 { self.bits[w].fetch_or(b, Ordering::Relaxed); }
  }
  pub fn count(&self) -> u64 { self.bits.iter().map(|w| w.load(Ordering::Relaxed).count_ones() as u64).sum() }
}

pub struct Failure {
  pub violation: Violation,
  pub case: Value,
  pub min_case: Value,
  pub min_violation: Violation,
  pub shrink_execs: u64,
}

/// What a campaign reports for a failing run: the violation, the case, and a deferred
/// minimiser (only invoked for violations that are not known findings).
pub struct RawFailure {
  pub violation: Violation,
  pub case: Value,
  pub shrink: Box<dyn FnOnce() -> (Value, Violation, u64) + Send>,
}

pub struct RunResult {
  pub failure: Option<RawFailure>,
  /// the run hit the property's premise probe
  pub nontrivial: bool,
  pub case_hash: u64,
  /// hashes of states / trace shapes reached (by the campaign's stated measure)
  pub state_hashes: Vec<u64>,
  /// the case written out (only requested for the lowest run indices)
  pub sample: Option<Value>,
  /// digest of the run's full event log (determinism self-check)
  pub digest: u64,
  pub sut_panic: Option<String>,
  /// the simulator itself misbehaved (e.g. record and replay of a case disagree): exit 2
  pub harness_error: Option<String>,
  /// executions this run performed (1, or 1 + the number of single-fault re-executions)
  pub evals: u64,
}

pub struct Ctx<'a> {
  pub thorough: bool,
  pub want_sample: bool,
  pub acc: &'a mut Acc,
}

pub trait Campaign: Sync {
  fn name(&self) -> String;
  fn world(&self) -> &'static str;
  fn runs(&self, thorough: bool) -> u64;
  /// generate and execute run `idx` from `seed`
  fn run(&self, seed: u64, idx: u64, ctx: &mut Ctx) -> RunResult;
  /// re-execute a stored case; returns the violation it produces, if any
  fn replay(&self, case: &Value) -> Result<Option<Violation>, String>;
  fn rule(&self) -> String;
  fn components(&self) -> Value;
  fn declare(&self, _acc: &mut Acc) {}
}

#[derive(Clone, Debug)]
pub struct KnownFinding {
  pub property: String,
  pub status: String,
  pub label: String,
  pub cause: String,
  pub description: String,
  pub commit: Option<String>,
}

pub fn load_known_findings(path: &str) -> Result<Vec<KnownFinding>, String> {
  let text = match std::fs::read_to_string(path) { Ok(t) => t, Err(_) => return Ok(vec![]) };
  let v: Value = serde_json::from_str(&text).map_err(|e| format!("{}: {}", path, e))?;
  let mut res = vec![];
  for f in v.get("findings").and_then(|f| f.as_array()).cloned().unwrap_or_default() {
    let s = |k: &str| f.get(k).and_then(|x| x.as_str()).unwrap_or("").to_string();
    res.push(KnownFinding { property: s("property"), status: s("status"), label: s("signature_label"), cause: s("signature_cause"), description: s("description"), commit: f.get("commit").and_then(|x| x.as_str()).map(|x| x.to_string()) });
  }
  Ok(res)
}

/// An open finding matches a violation only when property, violation class and the narrow cause
/// all agree, so a different violation of the same property is still reported.
pub fn match_known<'a>(known: &'a [KnownFinding], property: &str, v: &Violation) -> Option<&'a KnownFinding> {
  known.iter().find(|k| k.status == "open" && k.property == property && k.label == v.label && !k.cause.is_empty() && k.cause == v.cause)
}

pub struct CheckSpec {
  pub property: &'static str,
  pub level: &'static str,
  pub campaigns: Vec<Box<dyn Campaign>>,
  pub assumptions: Vec<String>,
  pub exhaustive_note: Option<String>,
}

pub struct CheckReport { pub violations: u64, pub exit: i32 }

pub fn verif_dir() -> String { std::env::var("VERIF_DIR").unwrap_or_else(|_| "/verif".to_string()) }

pub fn run_seed(base: u64, property: &str, campaign: &str, idx: u64) -> u64 {
  mix(mix(mix(base, hash_str(property)), hash_str(campaign)), idx)
}

/// set by the determinism pre-check when the tree under test answers one case in two ways
pub static SUT_NONDETERMINISTIC: AtomicBool = AtomicBool::new(false);
/// things that must never happen inside the harness itself (a simulated device pipe that is full)
pub static HARNESS_FAULTS: AtomicU64 = AtomicU64::new(0);
/// completed simulated runs (all campaigns); the watchdog in main.rs looks at it
pub static PROGRESS: AtomicU64 = AtomicU64::new(0);

/// A tree under test that spins for ever inside one call (a reader looping on a condition the
/// simulated devices never fulfil, say) makes no driver call the simulator could answer with an
/// unplug, so no run bound can end it. That is not a verdict about any property: after
/// `VERIF_WATCHDOG_S` seconds (default 300) of wall-clock time without a single finished run the
/// process stops with exit 2. Real time is read here and nowhere near a decision.
pub fn start_watchdog() {
  let limit: u64 = std::env::var("VERIF_WATCHDOG_S").ok().and_then(|v| v.parse().ok()).unwrap_or(300);
  std::thread::spawn(move || {
    let mut last = PROGRESS.load(Ordering::Relaxed); let mut idle = 0u64;
    loop {
      std::thread::sleep(std::time::Duration::from_secs(5));
      let now = PROGRESS.load(Ordering::Relaxed);
      if now != last { last = now; idle = 0; continue; }
      idle += 5;
      if idle >= limit {
        println!("harness error: no simulated run finished within {} s of wall-clock time: the tree under test spins inside a single call without reaching the simulator (or the harness is stuck); no verdict", limit);
        std::process::exit(2);
      }
    }
  });
}

pub fn run_check(spec: &CheckSpec, base_seed: u64, thorough: bool, threads: usize, runs_override: Option<u64>, write_evidence: bool) -> CheckReport {
  let t0 = Instant::now();
  let known = match load_known_findings(&format!("{}/known_findings.json", verif_dir())) { Ok(k) => k, Err(e) => { eprintln!("harness error: {}", e); return CheckReport { violations: 0, exit: 2 }; } };
  let tier = if thorough { "thorough" } else { "quick" };
  let mut total_evals = 0u64;
  let mut camp_reports: Vec<Value> = vec![];
  let mut all_acc = Acc::default();
  let mut samples: Vec<Value> = vec![];
  let mut total_nontrivial_distinct = 0u64;
  let mut total_states = 0u64;
  let mut total_violations = 0u64;
  let mut known_matched: BTreeMap<String, u64> = BTreeMap::new();
  let mut sut_panics = 0u64;
  let mut first_failure: Option<(String, u64, u64, Failure)> = None;
  let mut rules: Vec<String> = vec![];
  let mut components: Map<String, Value> = Map::new();
  let mut total_digest = 0u64;

  for camp in &spec.campaigns {
    let c0 = Instant::now();
    let cname = camp.name();
    let n = runs_override.unwrap_or_else(|| camp.runs(thorough));
    let next = AtomicU64::new(0);
    let stop_at = AtomicU64::new(u64::MAX);
    let log2 = if n > 20_000_000 { 30 } else if n > 2_000_000 { 28 } else { 26 };
    let distinct_nt = Distinct::new(log2);
    let distinct_states = Distinct::new(log2);
    let merged = Mutex::new((Acc::default(), Vec::<(u64, Value)>::new(), Vec::<(u64, u64, Failure)>::new(), BTreeMap::<String, u64>::new(), 0u64, 0u64, Vec::<(u64, String)>::new(), 0u64));
    let had_new = AtomicBool::new(false);
    let count_only = std::env::var("VERIF_COUNT_ONLY").is_ok();
    let failing_runs = AtomicU64::new(0);
    let harness_errors: Mutex<Vec<String>> = Mutex::new(vec![]);
    let digest_sum = AtomicU64::new(0);
    std::thread::scope(|s| {
      for _ in 0..threads {
        s.spawn(|| {
          let mut acc = Acc::default();
          camp.declare(&mut acc);
          let mut my_samples: Vec<(u64, Value)> = vec![];
          let mut my_fail: Vec<(u64, u64, Failure)> = vec![];
          let mut my_known: BTreeMap<String, u64> = BTreeMap::new();
          let mut my_nt = 0u64; let mut my_runs = 0u64;
          let mut my_panics: Vec<(u64, String)> = vec![];
          let mut my_digest = 0u64;
          let mut my_evals = 0u64;
          loop {
            // blocks of 64 consecutive run indices
            let start = next.fetch_add(64, Ordering::Relaxed);
            if start >= n { break; }
            for idx in start..(start + 64).min(n) {
              if idx > stop_at.load(Ordering::Relaxed) { break; }
              let seed = run_seed(base_seed, spec.property, &cname, idx);
              let mut ctx = Ctx { thorough, want_sample: idx < 3, acc: &mut acc };
              let r = camp.run(seed, idx, &mut ctx);
              PROGRESS.fetch_add(1, Ordering::Relaxed);
              my_runs += 1;
              my_evals += r.evals;
              my_digest = my_digest.wrapping_add(mix(idx, r.digest));
              if r.nontrivial { my_nt += 1; distinct_nt.insert(r.case_hash); }
              for h in &r.state_hashes { distinct_states.insert(*h); }
              if let Some(s) = r.sample { my_samples.push((idx, s)); }
              if let Some(p) = r.sut_panic { my_panics.push((idx, p)); }
              if let Some(e) = r.harness_error { let mut g = harness_errors.lock().unwrap(); if g.len() < 5 { g.push(format!("campaign {} run {}: {}", cname, idx, e)); } }
              if let Some(f) = r.failure {
                if let Some(k) = match_known(&known, spec.property, &f.violation) {
                  *my_known.entry(format!("{} {}", k.label, k.description)).or_insert(0) += 1;
                } else if count_only {
                  // measurement mode (VERIF_COUNT_ONLY=1): count failing runs, do not stop or minimise
                  failing_runs.fetch_add(1, Ordering::Relaxed);
                } else {
                  had_new.store(true, Ordering::Relaxed);
                  stop_at.fetch_min(idx, Ordering::Relaxed);
                  let (min_case, min_violation, shrink_execs) = (f.shrink)();
                  my_fail.push((idx, seed, Failure { violation: f.violation, case: f.case, min_case, min_violation, shrink_execs }));
                }
              }
            }
          }
          digest_sum.fetch_add(my_digest, Ordering::Relaxed);
          let mut g = merged.lock().unwrap();
          g.0.merge(&acc);
          g.1.extend(my_samples);
          g.2.extend(my_fail);
          for (k, v) in my_known { *g.3.entry(k).or_insert(0) += v; }
          g.4 += my_nt; g.5 += my_runs; g.7 += my_evals;
          g.6.extend(my_panics);
        });
      }
    });
    if count_only { println!("[count-only] campaign {}: {} failing runs of {}", cname, failing_runs.load(Ordering::Relaxed), n); }
    if HARNESS_FAULTS.load(Ordering::Relaxed) > 0 { eprintln!("harness error: campaign {}: {} write(s) of simulated device bytes did not fit into the pipe", cname, HARNESS_FAULTS.load(Ordering::Relaxed)); return CheckReport { violations: 0, exit: 2 }; }
    let herrs = harness_errors.into_inner().unwrap();
    if !herrs.is_empty() { for e in &herrs { eprintln!("harness error: {}", e); } return CheckReport { violations: 0, exit: 2 }; }
    let (acc, mut samp, mut fails, kn, nt_runs, runs_done, mut panics, evals_done) = merged.into_inner().unwrap();
    all_acc.merge(&acc);
    samp.sort_by_key(|x| x.0);
    for (_, s) in samp.into_iter().take(2) { samples.push(json!({"campaign": cname, "case": s})); }
    fails.sort_by_key(|x| x.0);
    for (k, v) in kn { *known_matched.entry(k).or_insert(0) += v; }
    panics.sort();
    sut_panics += panics.len() as u64;
    if let Some((idx, p)) = panics.first() { eprintln!("note: {} run(s) in campaign {} ended in a panic inside the system under test (first: run {} — {})", panics.len(), cname, idx, p); }
    let dn = distinct_nt.count();
    let ds = distinct_states.count();
    total_nontrivial_distinct += dn;
    total_states += ds;
    total_evals += evals_done;
    let wall = c0.elapsed().as_secs_f64();
    camp_reports.push(json!({
      "campaign": cname, "world": camp.world(), "runs": runs_done, "executions": evals_done, "planned_runs": n,
      "nontrivial_runs": nt_runs, "distinct_nontrivial": dn, "distinct_states_or_shapes": ds,
      "wall_s": wall, "runs_per_hour": if wall > 0.0 { (runs_done as f64 / wall * 3600.0) as u64 } else { 0 },
      "run_digest": format!("{:016x}", digest_sum.load(Ordering::Relaxed)),
    }));
    total_digest = total_digest.wrapping_add(mix(hash_str(&cname), digest_sum.load(Ordering::Relaxed)));
    rules.push(format!("[{}] {}", cname, camp.rule()));
    components.insert(cname.clone(), camp.components());
    if let Some((idx, seed, f)) = fails.into_iter().next() {
      total_violations += 1;
      if first_failure.is_none() { first_failure = Some((cname.clone(), idx, seed, f)); }
    }
    if first_failure.is_some() { break; }
  }

  let mism = all_acc.counters.get("runs_not_replaying_exactly").cloned().unwrap_or(0);
  if mism > 0 {
    SUT_NONDETERMINISTIC.store(true, Ordering::Relaxed);
    println!("warning: {} run(s) did not replay exactly (same case, same decisions, different history): the tree under test is not deterministic; every run is judged on what it did, exact replay is not guaranteed", mism);
  }
  for (k, n) in &known_matched { println!("KNOWN-FINDING: property={} {} (matched in {} runs)", spec.property, k, n); }
  for (k, v) in &all_acc.probes { if *v == 0 { eprintln!("warning: probe '{}' was never hit in this run of {}", k, spec.property); } }

  let mut exit = 0;
  if let Some((cname, idx, seed, f)) = &first_failure {
    let dir = format!("{}/replays", verif_dir());
    let _ = std::fs::create_dir_all(&dir);
    let path = format!("{}/{}-{}-{}-{}.json", dir, spec.property, cname, base_seed, idx);
    let doc = json!({
      "property": spec.property, "campaign": cname, "world": spec.campaigns.iter().find(|c| &c.name() == cname).map(|c| c.world()).unwrap_or(""),
      "base_seed": base_seed, "run_index": idx, "run_seed": seed, "tier": tier,
      "violation": f.violation.json(), "case": f.case,
      "minimised_violation": f.min_violation.json(), "minimised_case": f.min_case, "shrink_executions": f.shrink_execs,
      "replay": format!("./check --replay {}", path),
    });
    if let Err(e) = std::fs::write(&path, serde_json::to_string_pretty(&doc).unwrap()) { eprintln!("harness error: cannot write {}: {}", path, e); return CheckReport { violations: 1, exit: 2 }; }
    println!("violation class {} at step {}: {}", f.min_violation.label, f.min_violation.step, f.min_violation.detail);
    println!("VIOLATION property={} replay={}", spec.property, path);
    exit = 1;
  }

  let wall = t0.elapsed().as_secs_f64();
  if write_evidence {
    let mut cov = Map::new();
    cov.insert("evaluations".into(), json!(total_evals));
    cov.insert("distinct_nontrivial".into(), json!(total_nontrivial_distinct));
    cov.insert("rule".into(), json!(rules.join(" || ")));
    cov.insert("samples".into(), Value::Array(samples));
    cov.insert("campaigns".into(), Value::Array(camp_reports));
    cov.insert("steps".into(), json!(all_acc.counters.get("steps").cloned().unwrap_or(0)));
    cov.insert("simulated_seconds".into(), json!(all_acc.counters.get("sim_us").cloned().unwrap_or(0) as f64 / 1e6));
    cov.insert("counters".into(), json!(all_acc.counters));
    cov.insert("faults_injected".into(), json!(all_acc.faults));
    cov.insert("probes".into(), json!(all_acc.probes));
    cov.insert("distinct_states".into(), json!(total_states));
    cov.insert("runs_per_hour".into(), json!(if wall > 0.0 { (total_evals as f64 / wall * 3600.0) as u64 } else { 0 }));
    cov.insert("components".into(), Value::Object(components));
    cov.insert("known_findings_matched".into(), json!(known_matched));
    cov.insert("sut_panics".into(), json!(sut_panics));
    cov.insert("threads".into(), json!(threads));
    cov.insert("system_under_test_deterministic".into(), json!(!SUT_NONDETERMINISTIC.load(Ordering::Relaxed)));
    cov.insert("run_digest".into(), json!(format!("{:016x}", total_digest)));
    if let Some(n) = &spec.exhaustive_note { cov.insert("exhaustive_part".into(), json!(n)); }
    let ev = json!({
      "property_id": spec.property, "tier": tier, "seed": base_seed, "level": spec.level,
      "coverage": Value::Object(cov),
      "assumptions": spec.assumptions,
      "wall_s": wall, "violations": total_violations,
    });
    let dir = format!("{}/evidence", verif_dir());
    let _ = std::fs::create_dir_all(&dir);
    let path = format!("{}/{}.json", dir, spec.property);
    if let Err(e) = std::fs::write(&path, serde_json::to_string_pretty(&ev).unwrap()) { eprintln!("harness error: cannot write {}: {}", path, e); return CheckReport { violations: total_violations, exit: 2 }; }
  }
  println!("{} {}: {} runs, {} distinct non-trivial, {} violation(s), digest {:016x}, {:.1}s", spec.property, tier, total_evals, total_nontrivial_distinct, total_violations, total_digest, wall);
  CheckReport { violations: total_violations, exit }
}
