// World C — "wiresim": the byte layer. The simulator owns both ends of non-blocking pipes and
// plays the kernel: it is the uinput consumer behind the real DevInputWriter (hook H2) and the
// evdev node in front of the real DevInputReader / TabletModeSwitchReader.

use crate::keys::*;
use crate::common::*;
use crate::engine::*;
use crate::loopsim::{ByteLayer, Tape};
use crate::remapping_loop::verif_hooks::{VerifRealDriver, VNext, VPoll, VDevice};
use crate::dev_input_rw::{DevInputReader, DevInputWriter};
use crate::tablet_mode_switch_reader::{TabletModeSwitchReader, TableModeEvent};
use crate::rng::{Rng, H};
use nix::unistd::{pipe2, read, write, close};
use nix::fcntl::OFlag;
use nix::errno::Errno;
use num_traits::FromPrimitive;
use serde_json::{json, Value};
use std::os::unix::io::RawFd;
use std::panic::{catch_unwind, AssertUnwindSafe};

pub const REC: usize = std::mem::size_of::<libc::input_event>();
pub const EV_SYN: u16 = 0; pub const EV_KEY: u16 = 1; pub const EV_REL: u16 = 2; pub const EV_MSC: u16 = 4; pub const EV_SW: u16 = 5; pub const EV_LED: u16 = 17;

/// Build one record the way the kernel lays out `struct input_event` (through the libc type, not
/// through the tool's own serializer).
pub fn kernel_record(sec: i64, usec: i64, type_: u16, code: u16, value: i32) -> Vec<u8> {
  let mut ev: libc::input_event = unsafe { std::mem::zeroed() };
  ev.time.tv_sec = sec as libc::time_t;
  ev.time.tv_usec = usec as libc::suseconds_t;
  ev.type_ = type_; ev.code = code; ev.value = value;
  let p = &ev as *const libc::input_event as *const u8;
  unsafe { std::slice::from_raw_parts(p, REC) }.to_vec()
}

pub fn decode_record(b: &[u8]) -> (u16, u16, i32) {
  let ev: libc::input_event = unsafe { std::ptr::read_unaligned(b.as_ptr() as *const libc::input_event) };
  (ev.type_, ev.code, ev.value)
}

/// Check the bytes the writer produced for one batch against the kernel's record layout and
/// decode them. Err = description of the malformation.
pub fn check_wire(bytes: &[u8], batch: &[Event]) -> Result<Vec<Event>, String> {
  if bytes.len() != (batch.len() + 1) * REC { return Err(format!("batch of {} events produced {} bytes; expected {} records of {} bytes = {}", batch.len(), bytes.len(), batch.len() + 1, REC, (batch.len() + 1) * REC)); }
  let mut decoded = vec![];
  for (j, e) in batch.iter().enumerate() {
    let (t, c, v) = decode_record(&bytes[j * REC..(j + 1) * REC]);
    let (k, want_v) = match e { Pressed(k) => (*k, 1), Released(k) => (*k, 0) };
    if t != EV_KEY || c != (k as i32) as u16 || v != want_v { return Err(format!("record {} for {}: type {} code {} value {}; expected type {} code {} value {}", j, ev_str(e), t, c, v, EV_KEY, k as i32, want_v)); }
    decoded.push(e.clone());
  }
  let (t, c, v) = decode_record(&bytes[batch.len() * REC..]);
  if t != EV_SYN || c != 0 || v != 0 { return Err(format!("last record is type {} code {} value {}; expected one SYN_REPORT (0,0,0)", t, c, v)); }
  Ok(decoded)
}

/// What a consumer of the virtual keyboard sees in a byte string: every whole record that is a key
/// press or release of a known key, in order (everything else is skipped).
pub fn decode_leniently(bytes: &[u8]) -> Vec<Event> {
  use num_traits::FromPrimitive;
  let mut v = vec![];
  for rec in bytes.chunks(REC) {
    if rec.len() < REC { break; }
    let (t, c, val) = decode_record(rec);
    if t == EV_KEY && (val == 0 || val == 1) { if let Some(k) = <KeyCode as FromPrimitive>::from_u16(c) { v.push(if val == 1 { Pressed(k) } else { Released(k) }); } }
  }
  v
}

fn drain(fd: RawFd) -> Vec<u8> {
  let mut all = vec![];
  let mut buf = vec![0u8; 8192];
  loop {
    match read(fd, &mut buf) { Ok(0) => break, Ok(n) => all.extend_from_slice(&buf[..n]), Err(_) => break }
  }
  all
}

#[derive(Default, Clone, Debug)]
pub struct WireStats { pub read_eintr: u64, pub backlogs: u64, pub autorepeat_of_held_key: u64, pub failed_sends_before: u64, pub sends_before: u64, pub foreign: u64, pub foreign_syn_other: u64, pub foreign_syn: u64, pub foreign_msc: u64, pub foreign_autorepeat: u64, pub foreign_unknown_code: u64, pub foreign_other_type: u64, pub foreign_big_code: u64, pub eagain_mid_skip: u64, pub batches: u64, pub records_written: u64 }

pub struct Pipes { pub kbd_r: RawFd, pub kbd_w: RawFd, pub tab_r: RawFd, pub tab_w: RawFd, pub out_r: RawFd, pub out_w: RawFd }
impl Pipes {
  pub fn new() -> Pipes {
    let (kr, kw) = pipe2(OFlag::O_NONBLOCK).expect("pipe2");
    let (tr, tw) = pipe2(OFlag::O_NONBLOCK).expect("pipe2");
    let (or, ow) = pipe2(OFlag::O_NONBLOCK).expect("pipe2");
    // room for the longest marathon script arriving at one instant (the default 64 KiB holds
    // about 550 events with their foreign records); the output side is read after every batch
    for fd in [kw, tw] { let _ = nix::fcntl::fcntl(fd, nix::fcntl::FcntlArg::F_SETPIPE_SZ(1 << 20)); }
    Pipes { kbd_r: kr, kbd_w: kw, tab_r: tr, tab_w: tw, out_r: or, out_w: ow }
  }
}

/// Feed simulated device bytes into a pipe. If the pipe cannot take them the run no longer
/// simulates what the script says: that is a defect of the harness (exit 2), never a verdict.
fn feed(fd: RawFd, buf: &[u8]) {
  match write(fd, buf) {
    Ok(n) if n == buf.len() => {}
    _ => { crate::engine::HARNESS_FAULTS.fetch_add(1, std::sync::atomic::Ordering::Relaxed); }
  }
}
impl Drop for Pipes { fn drop(&mut self) { crate::sysseam::clear_once(); crate::sysseam::clear(self.kbd_r); crate::sysseam::clear(self.tab_r); crate::sysseam::unwatch_reads(self.kbd_r); crate::sysseam::unwatch_reads(self.tab_r); crate::sysseam::unwatch_writes(self.out_w); for fd in [self.kbd_r, self.kbd_w, self.tab_r, self.tab_w, self.out_r, self.out_w] { if fd >= 0 { let _ = close(fd); } } } }

/// A foreign record: something a real evdev node emits that the reader must skip.
pub fn foreign_record(sel: u64, arg: u64, stats: &mut WireStats, tablet: bool) -> Vec<u8> {
  stats.foreign += 1;
  let known = [30u16, 42, 29, 57, 1, 183];
  if tablet {
    return match sel % 7 {
      6 => { stats.foreign_syn_other += 1; kernel_record(1, 2, EV_SYN, 3, 0) }
      0 => { stats.foreign_syn += 1; kernel_record(1, 2, EV_SYN, 0, 0) }
      1 => { stats.foreign_other_type += 1; kernel_record(1, 2, EV_SW, 0, (arg % 2) as i32) }       // SW_LID
      2 => { stats.foreign_other_type += 1; kernel_record(1, 2, EV_SW, 1, 2 + (arg % 3) as i32) }   // SW_TABLET_MODE with an odd value
      3 => { stats.foreign_other_type += 1; kernel_record(1, 2, EV_KEY, 1, 1) }                      // a key event with code 1
      4 => { stats.foreign_msc += 1; kernel_record(1, 2, EV_MSC, 4, arg as i32 & 0xff) }
      _ => { stats.foreign_other_type += 1; kernel_record(1, 2, EV_SW, 5, 1) }
    };
  }
  match sel % 10 {
    8 => { stats.foreign_syn_other += 1; kernel_record(1623709383, 272708, EV_SYN, 3, 0) }                      // SYN_DROPPED
    9 => { stats.foreign_syn_other += 1; kernel_record(1623709383, 272708, EV_SYN, 1 + (arg % 2) as u16, (arg / 2 % 2) as i32) } // SYN_CONFIG / SYN_MT_REPORT
    0 => { stats.foreign_syn += 1; kernel_record(1623709383, 272708, EV_SYN, 0, 0) }
    1 => { stats.foreign_msc += 1; kernel_record(1623709383, 272708, EV_MSC, 4, (arg & 0xff) as i32) }
    2 => { stats.foreign_autorepeat += 1; kernel_record(1623709383, 272708, EV_KEY, known[(arg % 6) as usize], 2) }
    3 => { stats.foreign_unknown_code += 1;
      // codes the enum does not know, the extremes of the 16-bit range among them
      let cands = [84u16, 195, 196, 197, 198, 199, 0xffff, 0x7fff, 0x8000, 0xfffe, 701, 767, 768, 0x300, 0x2e8, 0x1000];
      let mut code = cands[(arg % 16) as usize];
      if <KeyCode as FromPrimitive>::from_u16(code).is_some() { code = 84; }
      kernel_record(7, 7, EV_KEY, code, (arg / 16 % 2) as i32) }
    4 => { stats.foreign_big_code += 1; kernel_record(7, 7, EV_KEY, 0x2ff - (arg % 3) as u16, (arg / 8 % 2) as i32) }
    5 => { stats.foreign_other_type += 1; kernel_record(7, 7, EV_LED, (arg % 3) as u16, (arg / 4 % 2) as i32) }
    6 => { stats.foreign_other_type += 1; kernel_record(7, 7, EV_REL, (arg % 2) as u16, (arg % 7) as i32 - 3) }
    _ => { stats.foreign_other_type += 1; kernel_record(7, 7, EV_KEY, known[(arg % 6) as usize], [3, -1, 256, i32::MAX][(arg / 8 % 4) as usize]) }
  }
}

fn key_record(e: &Event) -> Vec<u8> {
  match e { Pressed(k) => kernel_record(1623709403, 107286, EV_KEY, (*k as i32) as u16, 1), Released(k) => kernel_record(1623709403, 240861, EV_KEY, (*k as i32) as u16, 0) }
}

/// Byte layer for hybrid world-B runs.
/// Hybrid byte layer: the shipped RealDriver (hook H3) on pipes — its errno mapping, the real
/// readers and writer underneath, mio registration and zero-timeout poll.
pub struct PipeLayer { pub p: Pipes, drv: VerifRealDriver, pub stats: WireStats, last_actual: Option<Vec<Event>> }
impl PipeLayer {
  /// `has_tablet` = false builds the shipped driver without a tablet switch (its `t: None` paths)
  pub fn new(has_tablet: bool) -> PipeLayer {
    let p = Pipes::new();
    crate::sysseam::forget_epoll_registrations();
    crate::sysseam::watch_reads(p.kbd_r); crate::sysseam::watch_reads(p.tab_r); crate::sysseam::watch_writes(p.out_w);
    let drv = VerifRealDriver::from_fds(p.kbd_r, p.out_w, if has_tablet { Some(p.tab_r) } else { None });
    PipeLayer { p, drv, stats: WireStats::default(), last_actual: None }
  }
}
impl ByteLayer for PipeLayer {
  fn push_kbd(&mut self, e: &Event, tape: &mut Tape, held: &[KeyCode]) {
    let mut buf = vec![];
    // an auto-repeat record is mostly that of a key that is really held (that is what a keyboard repeats)
    let mut foreign = |s: u64, a: u64, stats: &mut WireStats| -> Vec<u8> {
      if s % 10 == 2 && !held.is_empty() && (a >> 3) & 3 != 0 { stats.foreign += 1; stats.foreign_autorepeat += 1; stats.autorepeat_of_held_key += 1; kernel_record(1623709383, 272708, EV_KEY, (held[((a >> 5) as usize) % held.len()] as i32) as u16, 2) }
      else { foreign_record(s, a, stats, false) }
    };
    let nb = tape.below(3); for _ in 0..nb { let s = tape.below(10); let a = tape.below(1 << 16); buf.extend(foreign(s, a, &mut self.stats)); }
    // now and then a backlog: a held key auto-repeated for seconds while nothing else happened
    if tape.below(150) == 149 { let n = 40 + tape.below(260); self.stats.backlogs += 1; for _ in 0..n { let a = tape.below(1 << 16); buf.extend(foreign(2, a | 8, &mut self.stats)); } }
    buf.extend(key_record(e));
    let na = tape.below(3); for _ in 0..na { let s = tape.below(10); let a = tape.below(1 << 16); buf.extend(foreign(s, a, &mut self.stats)); }
    self.stats.records_written += 1 + nb + na;
    feed(self.p.kbd_w, &buf);
  }
  fn push_tab(&mut self, on: bool, tape: &mut Tape) {
    let mut buf = vec![];
    let nb = tape.below(2); for _ in 0..nb { let s = tape.below(7); let a = tape.below(1 << 16); buf.extend(foreign_record(s, a, &mut self.stats, true)); }
    buf.extend(kernel_record(5, 5, EV_SW, 1, on as i32));
    let na = tape.below(2); for _ in 0..na { let s = tape.below(7); let a = tape.below(1 << 16); buf.extend(foreign_record(s, a, &mut self.stats, true)); }
    feed(self.p.tab_w, &buf);
  }
  fn read_kbd(&mut self) -> Result<Option<Event>, String> {
    match self.drv.next_keyboard() { Ok(VNext::One(e)) => Ok(Some(e)), Ok(VNext::Busy) => Ok(None), Ok(VNext::End) => Err("the real driver reported End on a pipe that is still open".into()), Err(e) => Err(e) }
  }
  fn read_tab(&mut self) -> Result<Option<bool>, String> {
    match self.drv.next_tablet() { Ok(VNext::One(on)) => Ok(Some(on)), Ok(VNext::Busy) => Ok(None), Ok(VNext::End) => Err("the real driver reported End on a tablet pipe that is still open".into()), Err(e) => Err(e) }
  }
  fn raw_next_keyboard(&mut self) -> Result<VNext<Event>, String> { self.drv.next_keyboard() }
  fn raw_next_tablet(&mut self) -> Result<VNext<bool>, String> { self.drv.next_tablet() }
  fn send(&mut self, evs: &Vec<Event>) -> Result<Vec<Event>, String> {
    self.drv.send(evs).map_err(|e| format!("real writer failed on a pipe: {}", e))?;
    self.stats.batches += 1;
    let bytes = drain(self.p.out_r);
    match check_wire(&bytes, evs) {
      Ok(d) => Ok(d),
      // malformed: report it, and hand back what a consumer would actually see in these bytes
      Err(e) => { self.last_actual = Some(decode_leniently(&bytes)); Err(e) }
    }
  }
  fn take_actual(&mut self) -> Option<Vec<Event>> { self.last_actual.take() }
  fn sabotage_writer(&mut self, kind: u8) {
    match kind % 3 {
      0 => { // queue full: the next write gets EAGAIN
        let filler = vec![0u8; 4096];
        for _ in 0..64 { if write(self.p.out_w, &filler).is_err() { break; } }
        let one = [0u8; 1];
        for _ in 0..8192 { if write(self.p.out_w, &one).is_err() { break; } }
      }
      1 => { // consumer gone: EPIPE (SIGPIPE is ignored in Rust binaries)
        let _ = close(self.p.out_r); self.p.out_r = -1;
      }
      _ => { // EBADF
        self.drv.replace_uinput_fd(-1);
      }
    }
  }
  fn raw_send(&mut self, evs: &Vec<Event>) -> Result<(), String> { self.drv.send(evs) }
  fn register(&mut self) -> Result<(), String> { self.drv.register_poll() }
  fn poll_now(&mut self) -> Result<Option<Vec<VDevice>>, String> {
    match self.drv.poll_now()? { VPoll::Devices(ds) => Ok(Some(ds)), VPoll::TimedOut => Ok(None), VPoll::Interrupted => Err("the real poll was interrupted".into()) }
  }
  fn hangup(&mut self, tablet: bool) {
    // closing the write end is what a pipe offers for "the device went away": the read end shows a
    // hang-up, records already queued stay readable
    // (an evdev node never reports end of file: once the queue is empty the read fails with ENODEV)
    if tablet { if self.p.tab_w >= 0 { let _ = close(self.p.tab_w); self.p.tab_w = -1; crate::sysseam::eof_reads_fail(self.p.tab_r, libc::ENODEV); } }
    else if self.p.kbd_w >= 0 { let _ = close(self.p.kbd_w); self.p.kbd_w = -1; crate::sysseam::eof_reads_fail(self.p.kbd_r, libc::ENODEV); }
  }
  fn unplug(&mut self, tablet: bool) {
    crate::sysseam::fail_reads(if tablet { self.p.tab_r } else { self.p.kbd_r }, libc::ENODEV);
  }
  fn take_driver(&mut self) -> Option<VerifRealDriver> { Some(std::mem::replace(&mut self.drv, VerifRealDriver::from_fds(-1, -1, None))) }
  fn put_driver(&mut self, d: VerifRealDriver) { self.drv = d; }
  fn device_fds(&self) -> (i32, i32) { (self.p.kbd_r, self.p.tab_r) }
  fn uinput_fd(&self) -> i32 { self.p.out_w }
  fn drain_uinput(&mut self) -> Vec<u8> { if self.p.out_r >= 0 { drain(self.p.out_r) } else { vec![] } }
  fn sabotage_reader(&mut self, tablet: bool) {
    // The descriptor number must stay allocated (another worker thread could be handed it the
    // moment it is closed), so the write end is dup2'ed over the read end: a read on a descriptor
    // that is not open for reading fails with EBADF.
    let (w, r) = if tablet { (self.p.tab_w, self.p.tab_r) } else { (self.p.kbd_w, self.p.kbd_r) };
    // (after a hang-up there is no write end left to dup: the system-call seam fails the reads)
    if w >= 0 { let _ = nix::unistd::dup2(w, r); } else { crate::sysseam::fail_reads(r, libc::EBADF); }
  }
}

// ------------------------------------------------------------------------------------------
// Stand-alone world-C campaign

#[derive(Clone, Debug)]
pub struct CaseC {
  /// batch handed to the real writer
  pub batch: Vec<Event>,
  /// read side: the stream the simulated evdev node emits, as bursts; each element is either a
  /// key event ("+A"/"-A") or a foreign record ["f", selector, argument]
  pub bursts: Vec<Vec<Rec>>,
  /// feed the writer's own bytes to the reader first
  pub loopback: bool,
  /// an earlier batch sent through the same writer: kind 0 = its write fails (the consumer's queue
  /// is full: EAGAIN) and the queue is drained afterwards, kind 1 = it is written normally. Either
  /// way the bytes of `batch` must be exactly `batch`'s ("for every batch of output events").
  pub before: Option<(u8, Vec<Event>)>,
  /// the case runs on a newly started thread: whatever the code under test keeps per thread
  /// (caches, lazily initialised tables) is cold, as it is when the program has just started
  pub fresh_thread: bool,
}
#[derive(Clone, Debug, PartialEq)]
pub enum Rec { Key(Event), Foreign(u64, u64) }

impl CaseC {
  pub fn json(&self) -> Value {
    json!({"world": "C", "fresh_thread": self.fresh_thread, "batch": evs_json(&self.batch), "loopback": self.loopback, "before": self.before.as_ref().map(|(k, b)| json!([k, evs_json(b)])),
      "bursts": self.bursts.iter().map(|b| b.iter().map(|r| match r { Rec::Key(e) => json!(ev_str(e)), Rec::Foreign(s, a) => json!(["f", s, a]) }).collect::<Vec<_>>()).collect::<Vec<_>>()})
  }
  pub fn from_json(v: &Value) -> Result<CaseC, String> {
    let mut batch = vec![];
    for e in v.get("batch").and_then(|x| x.as_array()).ok_or("case: no batch")? { batch.push(ev_from(e.as_str().ok_or("bad event")?)?); }
    let mut bursts = vec![];
    for b in v.get("bursts").and_then(|x| x.as_array()).cloned().unwrap_or_default() {
      let mut burst = vec![];
      for r in b.as_array().ok_or("bad burst")? {
        if let Some(s) = r.as_str() { burst.push(Rec::Key(ev_from(s)?)); }
        else { burst.push(Rec::Foreign(r[1].as_u64().unwrap_or(0), r[2].as_u64().unwrap_or(0))); }
      }
      bursts.push(burst);
    }
    let before = match v.get("before").and_then(|x| x.as_array()) {
      Some(a) if a.len() == 2 => { let mut b = vec![]; for e in a[1].as_array().cloned().unwrap_or_default() { b.push(ev_from(e.as_str().ok_or("bad event")?)?); } Some((a[0].as_u64().unwrap_or(0) as u8, b)) }
      _ => None,
    };
    Ok(CaseC { batch, bursts, loopback: v.get("loopback").and_then(|x| x.as_bool()).unwrap_or(true), before, fresh_thread: v.get("fresh_thread").and_then(|x| x.as_bool()).unwrap_or(false) })
  }
  pub fn hash(&self) -> u64 {
    let mut h = H::new();
    for e in &self.batch { hash_ev(&mut h, e); }
    h.u(0xCC);
    for b in &self.bursts { h.u(0xCD); for r in b { match r { Rec::Key(e) => hash_ev(&mut h, e), Rec::Foreign(s, a) => { h.u(0x5000 + s); h.u(*a); } } } }
    h.u(self.loopback as u64); if self.fresh_thread { h.u(0xf4e5); }
    if let Some((k, b)) = &self.before { h.u(0xCE + *k as u64); for e in b { hash_ev(&mut h, e); } }
    h.fin()
  }
}

pub fn execute_c(case: &CaseC, stats: &mut WireStats, digest: &mut u64) -> Option<Violation> {
  let p = Pipes::new();
  let mut writer = DevInputWriter::verif_from_fd(p.out_w);
  let mut reader = DevInputReader::verif_from_fd(p.kbd_r);
  let mut d = H::new();
  // (o) an earlier batch through the same writer, failed (queue full) or not
  if let Some((kind, eb)) = &case.before {
    if *kind == 0 {
      let filler = vec![0u8; 4096];
      for _ in 0..64 { if write(p.out_w, &filler).is_err() { break; } }
      let one = [0u8; 1];
      for _ in 0..8192 { if write(p.out_w, &one).is_err() { break; } }
      if writer.send(eb).is_err() { stats.failed_sends_before += 1; }
    } else { let _ = writer.send(eb); stats.sends_before += 1; }
    let _ = drain(p.out_r);
  }
  // (i) write side
  if let Err(e) = writer.send(&case.batch) { return Some(Violation::new("C18-write-error", 0, format!("the real writer failed on a pipe: {}", e))); }
  stats.batches += 1;
  let bytes = drain(p.out_r);
  // digest over (type, code, value) only: the time stamp of a record is not pinned by the property
  for rec in bytes.chunks(REC) { if rec.len() == REC { let (t, c, v) = decode_record(rec); d.u(t as u64); d.u(c as u64); d.u(v as u32 as u64); } else { d.u(0xBAD); d.u(rec.len() as u64); } }
  if let Err(e) = check_wire(&bytes, &case.batch) { return Some(Violation::new("C18-wire", 0, e)); }
  // one case in five: one read(2) on the device is interrupted by a signal (EINTR, nothing
  // transferred). A reader may report that or try again itself; the caller tries again; either way
  // every record must come out exactly once
  let ch = case.hash();
  if ch % 5 == 0 { crate::sysseam::watch_reads(p.kbd_r); crate::sysseam::fail_read_call_once(p.kbd_r, ((ch >> 8) % 14) as u32, libc::EINTR); stats.read_eintr += 1; }
  let mut eintr_seen = 0u64;
  let mut read_all = |reader: &mut DevInputReader| -> Result<Vec<Event>, String> {
    let mut got = vec![];
    loop {
      match reader.next() { Ok(e) => got.push(e), Err(nix::Error::Sys(Errno::EAGAIN)) => break, Err(nix::Error::Sys(Errno::EINTR)) if eintr_seen < 4 => { eintr_seen += 1; continue; } Err(e) => return Err(format!("{}", e)) }
      if got.len() > 100_000 { return Err("reader does not stop".into()); }
    }
    Ok(got)
  };
  // (ii) the tool's own reader decodes the writer's bytes back to the batch
  if case.loopback && !bytes.is_empty() {
    if let Err(e) = write(p.kbd_w, &bytes) { return Some(Violation::new("C18-harness", 0, format!("pipe write: {}", e))); }
    match read_all(&mut reader) {
      Ok(got) => { if got != case.batch { return Some(Violation::new("C18-roundtrip", 0, format!("writer's bytes decoded by the reader: {} ; batch was {}", evs_str(&got), evs_str(&case.batch)))); } }
      Err(e) => return Some(Violation::new("C18-read-error", 0, e)),
    }
  }
  // (iii) interleaved stream in bursts
  for (bi, burst) in case.bursts.iter().enumerate() {
    let mut buf = vec![];
    let mut expect = vec![];
    for r in burst {
      match r { Rec::Key(e) => { buf.extend(key_record(e)); expect.push(e.clone()); } Rec::Foreign(s, a) => buf.extend(foreign_record(*s, *a, stats, false)) }
    }
    stats.records_written += burst.len() as u64;
    if matches!(burst.last(), Some(Rec::Foreign(..))) { stats.eagain_mid_skip += 1; }
    if !buf.is_empty() { if let Err(e) = write(p.kbd_w, &buf) { return Some(Violation::new("C18-harness", bi + 1, format!("pipe write: {}", e))); } }
    match read_all(&mut reader) {
      Ok(got) => {
        for e in &got { hash_ev(&mut d, e); }
        if got != expect { return Some(Violation::new("C18-read", bi + 1, format!("burst {}: reader returned {} ; the press/release records with known codes were {}", bi, evs_str(&got), evs_str(&expect)))); }
      }
      Err(e) => return Some(Violation::new("C18-read-error", bi + 1, e)),
    }
  }
  *digest = d.fin();
  None
}

pub struct WireCampaign { pub exhaustive_codes: bool, pub length_sweep: bool, pub quick_runs: u64, pub thorough_runs: u64, pub keys: Vec<KeyCode> }
pub const MAX_SWEPT_LEN: u64 = 700;
impl WireCampaign {
  pub fn new(exhaustive_codes: bool, quick_runs: u64, thorough_runs: u64) -> WireCampaign { WireCampaign { exhaustive_codes, length_sweep: false, quick_runs, thorough_runs, keys: all_known_keys() } }
  pub fn lengths() -> WireCampaign { WireCampaign { exhaustive_codes: false, length_sweep: true, quick_runs: 0, thorough_runs: 0, keys: all_known_keys() } }
  pub fn generate(&self, seed: u64, idx: u64, thorough: bool) -> CaseC {
    let mut rng = Rng::new(seed);
    if self.length_sweep {
      // run idx writes a batch of exactly idx events (framing must not depend on the length)
      let len = (idx % (MAX_SWEPT_LEN + 1)) as usize;
      let mut batch = vec![];
      for _ in 0..len { let k = rng.pick(&self.keys); batch.push(if rng.chance(1, 2) { Pressed(k) } else { Released(k) }); }
      return CaseC { batch, bursts: vec![], loopback: true, before: None, fresh_thread: false };
    }
    if self.exhaustive_codes {
      // run idx covers key idx: press and release alone and inside a batch
      let k = self.keys[(idx as usize) % self.keys.len()];
      let other = self.keys[rng.below(self.keys.len())];
      let batch = match idx as usize / self.keys.len() { 0 => vec![Pressed(k)], 1 => vec![Released(k)], _ => vec![Pressed(other), Pressed(k), Released(k), Released(other)] };
      return CaseC { batch: batch.clone(), bursts: vec![vec![Rec::Foreign(1, 30), Rec::Key(Pressed(k)), Rec::Foreign(0, 0), Rec::Foreign(2, 0), Rec::Key(Released(k)), Rec::Foreign(0, 0)]], loopback: true, before: None, fresh_thread: false };
    }
    let len = match rng.below(10) { 0 => 0, 1 => 1, 2..=6 => rng.range(2, 8), _ => rng.range(9, if thorough { 200 } else { 64 }) };
    let mut batch = vec![];
    for _ in 0..len { let k = rng.pick(&self.keys); batch.push(if rng.chance(1, 2) { Pressed(k) } else { Released(k) }); }
    let nb = rng.below(if thorough { 12 } else { 6 });
    let p_foreign = [0, 20, 50, 80][rng.below(4)];
    let mut bursts = vec![];
    for _ in 0..nb {
      let n = rng.below(10);
      let mut b = vec![];
      for _ in 0..n {
        if (rng.below(100) as u64) < p_foreign { b.push(Rec::Foreign(rng.below(10) as u64, rng.below(1 << 16) as u64)); }
        else { let k = rng.pick(&self.keys); b.push(Rec::Key(if rng.chance(1, 2) { Pressed(k) } else { Released(k) })); }
      }
      bursts.push(b);
    }
    // a backlog: the reader fell behind while a key auto-repeated (or a mouse moved): tens to hundreds
    // of records it must skip in a row, then a key record it must not lose
    if rng.chance(1, 25) {
      let n = match rng.below(4) { 0 => rng.range(30, 70), 1 => rng.range(60, 140), 2 => rng.range(120, 300), _ => rng.range(250, 700) };
      let sel = [2u64, 2, 1, 6, 3, 0][rng.below(6)];
      let mut b = vec![];
      for _ in 0..n { b.push(Rec::Foreign(if rng.chance(1, 10) { rng.below(10) as u64 } else { sel }, rng.below(1 << 16) as u64)); }
      let k = rng.pick(&self.keys); b.push(Rec::Key(if rng.chance(1, 2) { Pressed(k) } else { Released(k) }));
      let at = rng.below(bursts.len() + 1); bursts.insert(at, b);
    }
    let loopback = rng.chance(3, 4);
    let before = if rng.chance(1, 4) {
      let mut b = vec![];
      for _ in 0..rng.range(1, 6) { let k = rng.pick(&self.keys); b.push(if rng.chance(1, 2) { Pressed(k) } else { Released(k) }); }
      Some((rng.below(2) as u8, b))
    } else { None };
    // one case in 100 runs on a newly started thread and then mostly begins with what a cold reader must
    // not stumble over: a record with an unknown code before any known key was ever decoded
    let fresh_thread = rng.chance(1, 100);
    let mut bursts = bursts; let mut loopback = loopback;
    if fresh_thread && rng.chance(2, 3) { loopback = false; let first = vec![Rec::Foreign(3, rng.below(1 << 16) as u64), Rec::Key(if rng.chance(1, 2) { Pressed(rng.pick(&self.keys)) } else { Released(rng.pick(&self.keys)) })]; bursts.insert(0, first); }
    CaseC { batch, bursts, loopback, before, fresh_thread }
  }
}

fn run_c(case: &CaseC, stats: &mut WireStats, digest: &mut u64) -> Result<Option<Violation>, String> {
  let c = case.clone();
  if case.fresh_thread {
    let (r, st, d) = std::thread::scope(|s| s.spawn(|| { let mut st = WireStats::default(); let mut d = 0u64; let r = catch_unwind(AssertUnwindSafe(|| execute_c(&c, &mut st, &mut d))).map_err(|e| panic_msg(&e)); (r, st, d) }).join()).map_err(|_| "the fresh thread died".to_string())?;
    *stats = st; *digest = d;
    return r;
  }
  catch_unwind(AssertUnwindSafe(|| execute_c(&c, stats, digest))).map_err(|e| panic_msg(&e))
}

pub fn minimise_c(case: &CaseC, label: &str) -> (CaseC, Violation, u64) {
  let mut best = case.clone(); let mut execs = 0u64;
  let same = |c: &CaseC, execs: &mut u64| -> Option<Violation> { *execs += 1; let mut s = WireStats::default(); let mut d = 0; match run_c(c, &mut s, &mut d) { Ok(Some(v)) if v.label == label => Some(v), _ => None } };
  let mut cur = match same(&best, &mut execs) { Some(v) => v, None => return (best, Violation::new(label, 0, "not reproducible during minimisation".into()), execs) };
  loop {
    let mut progress = false;
    let mut i = best.batch.len();
    while i > 0 && execs < 3000 { i -= 1; let mut c = best.clone(); c.batch.remove(i); if let Some(v) = same(&c, &mut execs) { best = c; cur = v; progress = true; } }
    let mut bi = best.bursts.len();
    while bi > 0 && execs < 3000 { bi -= 1; let mut c = best.clone(); c.bursts.remove(bi); if let Some(v) = same(&c, &mut execs) { best = c; cur = v; progress = true; } }
    for bi in 0..best.bursts.len() {
      let mut i = best.bursts[bi].len();
      while i > 0 && execs < 3000 { i -= 1; let mut c = best.clone(); c.bursts[bi].remove(i); if let Some(v) = same(&c, &mut execs) { best = c; cur = v; progress = true; } }
    }
    if best.loopback { let mut c = best.clone(); c.loopback = false; if let Some(v) = same(&c, &mut execs) { best = c; cur = v; progress = true; } }
    if !progress || execs >= 3000 { break; }
  }
  (best, cur, execs)
}

impl Campaign for WireCampaign {
  fn name(&self) -> String { if self.exhaustive_codes { "wiresim-all-codes".into() } else if self.length_sweep { "wiresim-all-lengths".into() } else { "wiresim-random".into() } }
  fn world(&self) -> &'static str { "C" }
  fn runs(&self, thorough: bool) -> u64 { if self.exhaustive_codes { 3 * self.keys.len() as u64 } else if self.length_sweep { MAX_SWEPT_LEN + 1 } else if thorough { self.thorough_runs } else { self.quick_runs } }
  fn declare(&self, acc: &mut Acc) {
    for f in ["foreign_syn_dropped_config_mt", "foreign_syn_report", "foreign_msc_scan", "foreign_autorepeat_value2", "foreign_unknown_key_code", "foreign_code_above_enum", "foreign_other_type_or_value", "eagain_while_skipping_foreign_records"] { acc.declare_fault(f); }
  }
  fn run(&self, seed: u64, idx: u64, ctx: &mut Ctx) -> RunResult {
    let case = self.generate(seed, idx, ctx.thorough);
    let mut stats = WireStats::default(); let mut digest = 0u64;
    let res = run_c(&case, &mut stats, &mut digest);
    let acc = &mut *ctx.acc;
    acc.fault("foreign_syn_report", stats.foreign_syn); acc.fault("foreign_syn_dropped_config_mt", stats.foreign_syn_other); acc.fault("foreign_msc_scan", stats.foreign_msc); acc.fault("foreign_autorepeat_value2", stats.foreign_autorepeat);
    acc.fault("foreign_unknown_key_code", stats.foreign_unknown_code); acc.fault("foreign_code_above_enum", stats.foreign_big_code); acc.fault("foreign_other_type_or_value", stats.foreign_other_type);
    acc.fault("eagain_while_skipping_foreign_records", stats.eagain_mid_skip);
    acc.fault("device_read_interrupted_eintr_once_armed", stats.read_eintr); acc.fault("earlier_send_failed_eagain_on_a_full_queue", stats.failed_sends_before); acc.probe_n("earlier_batch_through_the_same_writer", stats.sends_before + stats.failed_sends_before);
    acc.count("batches_written", stats.batches); acc.count("records_fed_to_reader", stats.records_written); acc.count("steps", 1 + case.bursts.len() as u64);
    let nt = case.batch.len() >= 2 || case.bursts.iter().any(|b| b.iter().any(|r| matches!(r, Rec::Foreign(..))));
    let sample = if ctx.want_sample { Some(case.json()) } else { None };
    let mut sut_panic = None;
    let failure = match res {
      Ok(None) => None,
      Ok(Some(v)) => { let c2 = case.clone(); let label = v.label.clone(); Some(RawFailure { violation: v, case: case.json(), shrink: Box::new(move || { let (m, mv, n) = minimise_c(&c2, &label); (m.json(), mv, n) }) }) }
      Err(p) => { sut_panic = Some(p.clone()); let c2 = case.clone(); Some(RawFailure { violation: Violation::new("C18-panic", 0, format!("panic in the byte layer: {}", p)), case: case.json(), shrink: Box::new(move || (c2.json(), Violation::new("C18-panic", 0, "panic in the byte layer".into()), 0)) }) }
    };
    RunResult { failure, nontrivial: nt, case_hash: case.hash(), state_hashes: vec![], sample, digest, sut_panic, harness_error: None, evals: 1 }
  }
  fn replay(&self, case: &Value) -> Result<Option<Violation>, String> {
    let c = CaseC::from_json(case)?; let mut s = WireStats::default(); let mut d = 0;
    match run_c(&c, &mut s, &mut d) { Ok(v) => Ok(v), Err(p) => Ok(Some(Violation::new("C18-panic", 0, format!("panic in the byte layer: {}", p)))) }
  }
  fn rule(&self) -> String {
    if self.length_sweep { return format!("every batch length 0..={} once, random keys: written by the real writer, checked record by record against libc::input_event (exactly one SYN_REPORT at the end), decoded again by the real reader; non-trivial = length >= 2", MAX_SWEPT_LEN); }
    if self.exhaustive_codes { format!("exhaustive: every key code the tool knows ({} codes) x {{press alone, release alone, inside a 4-event batch}}: written by the real writer, checked against libc::input_event, decoded again by the real reader, and read from a stream with foreign records around it; non-trivial = always", self.keys.len()) }
    else { "random batch (length 0-64 quick, 0-200 thorough) over all known key codes written by the real DevInputWriter into a pipe and checked record by record against libc::input_event; the same bytes fed to the real DevInputReader; then 0-6 (12 thorough) bursts of up to 9 records mixing key presses/releases with foreign records (SYN, MSC scan, value-2 auto-repeat, unknown codes, codes above the enum, LED/REL, odd values), reader called until EAGAIN after every burst; distinct by hash of (batch, bursts); non-trivial = batch of >=2 events or a burst with >=1 foreign record".into() }
  }
  fn components(&self) -> Value {
    json!({"real": ["dev_input_rw::DevInputWriter::send (hook H2 constructor)", "struct_ser::StructSerializer", "dev_input_rw::DevInputReader::next"], "stub": ["uinput consumer and evdev node (non-blocking pipes owned by the simulator)"], "trusted": ["libc::input_event for this target as the kernel record layout", "KeyCode discriminants are the kernel key numbers"]})
  }
}
