// Mounts the repository's modules into this crate: for every `mod x;` line of
// $VERIF_REPO/src/main.rs emit `#[path = "$VERIF_REPO/src/x.rs"] pub mod x;`.
// cargo's dep-info tracks the #[path] files, so every build picks up the
// current working tree of the repository.
use std::{env, fs, path::PathBuf};
fn main() {
  let repo = env::var("VERIF_REPO").unwrap_or_else(|_| "/repo".to_string());
  println!("cargo:rerun-if-env-changed=VERIF_REPO");
  println!("cargo:rerun-if-changed={}/src/main.rs", repo);
  println!("cargo:rerun-if-changed=build.rs");
  let main = fs::read_to_string(format!("{}/src/main.rs", repo)).expect("cannot read repo main.rs");
  let mut out = String::new();
  for line in main.lines() {
    let l = line.trim();
    if let Some(rest) = l.strip_prefix("mod ") {
      if let Some(name) = rest.strip_suffix(';') {
        let name = name.trim();
        out.push_str(&format!("#[path = \"{}/src/{}.rs\"] pub mod {};\n", repo, name, name));
      }
    }
  }
  fs::write(PathBuf::from(env::var("OUT_DIR").unwrap()).join("repo_mods.rs"), out).unwrap();
  println!("cargo:rustc-env=VERIF_REPO_BUILT={}", repo);
}
