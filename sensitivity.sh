#!/bin/bash
# Sensitivity suite: applies every patch under /verif/mutants (and every kept sub-agent change
# under /verif/seeded/*/patch.diff) to a scratch copy of the repository OUTSIDE /repo and /verif,
# points the harness at it (VERIF_REPO) and runs the intended property's quick check.
#   expected: exit 1 + VIOLATION for a property-breaking mutant; exit 0 on every listed check for
#   an equivalent mutant. Results go to /verif/mutants/results.json. Scratch copy, scratch verif
#   dir and the separate build directory are removed afterwards.
# usage: ./sensitivity.sh [name-substring ...]      (VERIF_SEED is honoured)
set -u
here="$(cd "$(dirname "$0")" && pwd)"
work="$(mktemp -d /tmp/verif-sens.XXXXXX)"
trap 'rm -rf "$work"' EXIT
export CARGO_TARGET_DIR="$work/target"
export VERIF_DIR="$work/verif"
mkdir -p "$VERIF_DIR" "$work/repo" "$work/harness"
cp "$here/known_findings.json" "$VERIF_DIR/"
# a private snapshot of the harness sources, so that edits under /verif/sim during a long run
# cannot disturb it
rsync -a --exclude target "$here/sim" "$work/harness/"
cp "$here/check" "$work/harness/check"
results="$here/mutants/results.json"
tmpres="$work/results.jsonl"
: > "$tmpres"

run_one() { # name property patchfile
  local name="$1" prop="$2" patch="$3"
  rm -rf "$work/repo"; mkdir -p "$work/repo"
  cp -r /repo/src /repo/README.md /repo/Cargo.toml "$work/repo/"
  if ! (cd "$work/repo" && patch -p1 -s < "$patch"); then echo "$name: PATCH DOES NOT APPLY"; echo "{\"name\":\"$name\",\"property\":\"$prop\",\"result\":\"patch-failed\"}" >> "$tmpres"; return; fi
  local props="$prop"
  case "$prop" in EQ:*) props="$(echo "${prop#EQ:}" | tr ',' ' ')"; prop="EQ";; esac
  if [ "$prop" = "EQ" ] && [ "$props" = "EQ" ]; then
    case "$patch" in
      *) if grep -q "remapping_loop.rs" "$patch"; then props="C10 C11 C12 C19 C20"; else props="C01 C02 C03 C04 C05 C06 C07 C08 C09 C19"; fi ;;
    esac
  fi
  local verdict="" detail=""
  for p in $props; do
    out="$(VERIF_REPO="$work/repo" "$work/harness/check" "$p" quick 2>&1)"; rc=$?
    line="$(echo "$out" | grep -E '^violation class' | head -1)"
    if [ "$prop" = "EQ" ]; then
      if [ $rc -ne 0 ]; then verdict="FALSE-ALARM"; detail="$p rc=$rc $line"; break; else verdict="quiet"; fi
    else
      if [ $rc -eq 1 ]; then verdict="detected"; detail="$line"
        # keep the minimised failing case next to a seeded change, as documentation
        case "$name" in seeded-*) rp="$(echo "$out" | grep -E '^VIOLATION' | sed -E 's/.*replay=//')"; [ -f "$rp" ] && cp "$rp" "$here/seeded/${name#seeded-}/found-replay.json" ;; esac
      elif [ $rc -eq 0 ]; then verdict="MISSED"; else verdict="ERROR"; detail="$(echo "$out" | tail -3 | tr '\n' ' ')"; fi
    fi
  done
  echo "$name [$prop]: $verdict ${detail:0:200}"
  python3 - "$name" "$prop" "$verdict" "$detail" >> "$tmpres" <<'EOF'
import json,sys
print(json.dumps({"name":sys.argv[1],"property":sys.argv[2],"result":sys.argv[3],"detail":sys.argv[4][:300]}))
EOF
}

filter=("$@")
want() { local n="$1"; [ ${#filter[@]} -eq 0 ] && return 0; for f in "${filter[@]}"; do case "$n" in *"$f"*) return 0;; esac; done; return 1; }

python3 - "$here" > "$work/list.txt" <<'EOF'
import json,sys,os,glob
here=sys.argv[1]
for m in json.load(open(os.path.join(here,"mutants","index.json"))):
    print(m["name"], m["property"], os.path.join(here,"mutants",m["name"]+".diff"))
for meta in sorted(glob.glob(os.path.join(here,"preserving","*","meta.json"))):
    d=json.load(open(meta)); dirn=os.path.dirname(meta)
    print("preserving-"+os.path.basename(dirn), "EQ:"+",".join(d["checks"]), os.path.join(dirn,"patch.diff"))
for meta in sorted(glob.glob(os.path.join(here,"seeded","*","meta.json"))):
    d=json.load(open(meta)); dirn=os.path.dirname(meta)
    # kept changes that are documented as not breaking a claimed property are expected to be quiet
    quiet = d.get("status","").startswith(("outside", "not a violation"))
    print("seeded-"+os.path.basename(dirn), ("EQ:" if quiet else "")+d["property"], os.path.join(dirn,"patch.diff"))
EOF
while read -r name prop patch; do
  want "$name" || continue
  run_one "$name" "$prop" "$patch"
done < "$work/list.txt"

python3 - "$tmpres" "$results" "${#filter[@]}" <<'EOF'
import json,sys
new=[json.loads(l) for l in open(sys.argv[1]) if l.strip()]
path=sys.argv[2]
old=[]
if int(sys.argv[3])>0:
    try: old=json.load(open(path))
    except Exception: old=[]
names={r["name"] for r in new}
import os,glob
here=os.path.dirname(path)
valid={m["name"] for m in json.load(open(os.path.join(here,"index.json")))}|{"seeded-"+os.path.basename(os.path.dirname(m)) for m in glob.glob(os.path.join(os.path.dirname(here),"seeded","*","meta.json"))}|{"preserving-"+os.path.basename(os.path.dirname(m)) for m in glob.glob(os.path.join(os.path.dirname(here),"preserving","*","meta.json"))}
merged=[r for r in old if r["name"] not in names and r["name"] in valid]+new
merged.sort(key=lambda r:r["name"])
json.dump(merged,open(path,"w"),indent=1)
bad=[r for r in new if r["result"] not in ("detected","quiet")]
print(f"{len(new)} mutants run, {len(bad)} not as expected")
sys.exit(1 if bad else 0)
EOF
