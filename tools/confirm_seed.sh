#!/bin/bash
# Confirms a sub-agent's seeded change in its scratch worktree:
#   (i) clean + demo: all tests pass; (ii) clean + patch: the 49 baseline tests pass;
#   (iii) clean + patch + demo: the new tests fail, the 49 still pass.
# usage: tools/confirm_seed.sh <worktree> <dir containing patch.diff and demo.diff>
wt="$1"; d="$2"
cd "$wt" || exit 2
summ() { grep -E "^test result" | sed -E 's/.*: (ok|FAILED)\. ([0-9]+) passed; ([0-9]+) failed.*/\1 \2 passed \3 failed/' | tr '\n' ';'; }
git checkout -q -- . ; git apply --whitespace=nowarn "$d/demo.diff" || { echo "demo does not apply on clean"; exit 2; }
echo "(i)   clean+demo:        $(cargo test --offline 2>&1 | summ)"
git checkout -q -- . ; git apply --whitespace=nowarn "$d/patch.diff" || { echo "patch does not apply"; exit 2; }
echo "(ii)  clean+patch:       $(cargo test --offline 2>&1 | summ)"
git apply --whitespace=nowarn "$d/demo.diff" || { echo "demo does not apply on patch"; exit 2; }
out="$(cargo test --offline 2>&1)"
echo "(iii) clean+patch+demo:  $(echo "$out" | summ)"
echo "$out" | grep -E "^test .* FAILED" | head -8
git checkout -q -- . ; git status --short | grep -v "^?? OUT" | head
