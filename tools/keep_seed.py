#!/usr/bin/env python3
# Files a confirmed seeded change under /verif/seeded/<id>/ and refreshes seeded/README.md.
# usage: keep_seed.py <id> <srcdir> <property> --needs TEXT --confirm TEXT --ran "CMD => RESULT" [--ran ...] --caught-by TEXT [--status caught|missed|...]
import argparse, json, os, shutil, glob
ap = argparse.ArgumentParser()
ap.add_argument("id"); ap.add_argument("srcdir"); ap.add_argument("property")
ap.add_argument("--needs", required=True); ap.add_argument("--confirm", required=True)
ap.add_argument("--ran", action="append", default=[]); ap.add_argument("--caught-by", default="")
ap.add_argument("--status", default="caught"); ap.add_argument("--summary", default="")
a = ap.parse_args()
root = os.path.join(os.path.dirname(os.path.dirname(os.path.abspath(__file__))), "seeded")
d = os.path.join(root, a.id); os.makedirs(d, exist_ok=True)
for f in ("patch.diff", "demo.diff", "notes.md"):
    if os.path.exists(os.path.join(a.srcdir, f)): shutil.copy(os.path.join(a.srcdir, f), os.path.join(d, f))
meta = {"id": a.id, "property": a.property, "summary": a.summary, "needs_to_manifest": a.needs,
        "confirmed_in_scratch_worktree": a.confirm, "checks_run": a.ran, "caught_by": a.caught_by, "status": a.status,
        "origin": "fresh sub-agent given only the property text and a scratch worktree of /repo (nothing from /verif)"}
json.dump(meta, open(os.path.join(d, "meta.json"), "w"), indent=1)
rows = []
for m in sorted(glob.glob(os.path.join(root, "*", "meta.json"))):
    x = json.load(open(m))
    rows.append(f"| {x['id']} | {x['property']} | {x.get('summary','')} | {x['needs_to_manifest']} | {x['status']}: {x['caught_by']} |")
open(os.path.join(root, "README.md"), "w").write("""# Independently seeded changes

One directory per kept change: `patch.diff` (the change), `demo.diff` (the sub-agent's demonstration
test), `notes.md` (the sub-agent's explanation), `meta.json` (property, what it needs to manifest,
what was run here, which check catches it with which violation class). None of these is ever
committed to /repo; `./sensitivity.sh seeded` re-runs the intended check against each of them in a
scratch copy.

| id | property | change | what it needs to manifest | result |
|---|---|---|---|---|
""" + "\n".join(rows) + "\n")
print("kept", a.id)
