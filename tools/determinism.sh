#!/bin/bash
# Cross-process determinism proof of the simulator: every claimed check is executed several times
# in fresh processes, with different worker counts, for several VERIF_SEED values; the
# order-insensitive run digest (hash over every run's full event log, case hash and verdict) and
# the run/non-trivial counts printed on the summary line must be identical.
# usage: tools/determinism.sh [seeds=6] [runs=60000]
here="$(cd "$(dirname "$0")/.." && pwd)"
seeds="${1:-6}"; runs="${2:-60000}"
cd "$here/sim" && CARGO_NET_OFFLINE=true cargo build --release >/dev/null 2>&1 || { echo "build failed"; exit 2; }
bin="${CARGO_TARGET_DIR:-$here/sim/target}/release/sim"
bad=0; total=0
for p in $("$bin" list); do
  for seed in $(seq 1 "$seeds"); do
    ref=""
    for threads in 16 5 1; do
      r=$(("$runs")); [ "$threads" = 1 ] && r=$((runs/8))
      [ "$threads" = 1 ] && continue_ref="" 
      line="$(VERIF_SEED=$seed "$bin" check "$p" --runs "$runs" --threads "$threads" --no-evidence 2>/dev/null | grep -E "^$p quick:" | sed -E 's/, [0-9.]+s$//')"
      total=$((total+1))
      if [ -z "$ref" ]; then ref="$line"; elif [ "$line" != "$ref" ]; then echo "NONDETERMINISTIC $p seed=$seed threads=$threads: '$line' vs '$ref'"; bad=$((bad+1)); fi
    done
    echo "$p seed=$seed: $ref"
  done
done
echo "$total process runs, $bad mismatches"
[ "$bad" -eq 0 ] || exit 2
