#!/usr/bin/env python3
# Regenerates /verif/mutants/*.diff (unified diffs against /repo's working tree) and
# /verif/mutants/index.json from the table below. Each mutant is a small, compiling change that
# breaks one property (or is a documented equivalent mutant); sensitivity.sh applies each to a
# scratch copy and expects the intended check to exit 1.
import difflib, json, os, sys

REPO = os.environ.get("VERIF_REPO", "/repo")
OUT = os.path.join(os.path.dirname(os.path.dirname(os.path.abspath(__file__))), "mutants")
KT, RL, RW, LP, FI, TR = "src/key_transforms.rs", "src/remapping_loop.rs", "src/dev_input_rw.rs", "src/layout_parsing_formatting.rs", "src/fancy_layout_interpreting.rs", "src/tablet_mode_switch_reader.rs"

# name: (property, file, [(old, new), ...], note)   property "EQ" = equivalent mutant (no check should fire)
M = {
 # ---------------- mapper
 "M01_first_listed_wins": ("C03", KT, [("for mapping in mappings.iter().rev() {", "for mapping in mappings.iter() {")], "scan the group forwards instead of backwards"),
 "M02_no_release_of_stale_outputs": ("C04", KT, [("  if is_action_mapping(m) {\n    events.append(&mut release_action_mappings(state));\n  }", "  if is_action_mapping(m) {\n  }")], "earlier key-producing mapping's modifiers stay down"),
 "M03_absorbed_keys_still_count": ("C08", KT, [("if !((pressed_keys.contains(&k) && !absorbed_keys.contains(&k)) || k == new_key) {", "if !((pressed_keys.contains(&k)) || k == new_key) {")], "absorbed modifier keeps triggering"),
 "M04_no_still_used_test": ("C05", KT, [("        if active_mappings[j].to.contains(&k) {\n          still_used = true;", "        if false && active_mappings[j].to.contains(&k) {\n          still_used = true;")], "release lifts a key another active mapping outputs"),
 "M05_disabled_does_not_release": ("C07", KT, [("      // Release all action keys to prevent repeating\n      res.events.append(&mut release_all_action_keys(state));", "      // Release all action keys to prevent repeating\n")], "Disabled mapping leaves the key held"),
 "M06_release_returns_nochange": ("C09", KT, [("  let repeat = ResultingRepeat::Disabled;\n  \n  StepResult { events, repeat }", "  let repeat = ResultingRepeat::NoChange;\n  \n  StepResult { events, repeat }")], "a release does not cancel repeating"),
 "M07_keep_absorbing_trigger_EQUIVALENT": ("EQ", KT, [("  to_remove.append(&mut state.mapped_absorbed_keys);\n  state.absorbing_trigger = None;", "  to_remove.append(&mut state.mapped_absorbed_keys);")], "stale absorbing_trigger is unobservable: the absorbed list is empty after the flush"),
 "M08_repress_does_not_unabsorb": ("C08", KT, [("  state.mapped_absorbed_keys.retain(|k2| *k2 != k);\n  state.repeating_trigger = None;", "  state.repeating_trigger = None;")], "M pressed again still counts as absorbed"),
 "M09_consumed_trigger_not_released": ("C02", KT, [("      if !m.to.contains(&old_key) {\n        events.push(Released(old_key));\n        false", "      if !m.to.contains(&old_key) {\n        false")], "pass-through trigger key stays down on the output (and is forgotten)"),
 "M10_passthrough_release_lost": ("C01", KT, [("      events.push(Released(k));\n      state.pass_through_keys.remove(i);\n      break;\n    }\n  }\n  \n  state.input_pressed_keys.retain(|&old_key|", "      state.pass_through_keys.remove(i);\n      break;\n    }\n  }\n  \n  state.input_pressed_keys.retain(|&old_key|")], "release of a pass-through key is not emitted"),
 "M11_shadow_ignored_on_handover": ("C02", KT, [("        if !still_shadowed {\n          pass_through_keys.push(k);", "        if true {\n          pass_through_keys.push(k);")], "hand-over ignores that another active mapping consumes the key"),
 "M12_normal_keyed_on_repeating_trigger_EQUIVALENT": ("EQ", KT, [("    Repeat::Normal => {\n      // OK, nothing to do\n    },", "    Repeat::Normal => {\n      if state.repeating_trigger.is_some() { res.repeat = ResultingRepeat::NoChange; }\n    },")], "repeating_trigger is reset at the top of every press, so the condition is never true"),
 "M13_duplicate_press_cancels_repeat": ("C09", KT, [("        else {\n          StepResult {\n            events: vec![],\n            repeat: ResultingRepeat::NoChange\n          }\n        }\n      },\n      Released(k)", "        else {\n          StepResult {\n            events: vec![],\n            repeat: ResultingRepeat::Disabled\n          }\n        }\n      },\n      Released(k)")], "ignored duplicate press cancels repeating"),
 "M14_absorbed_key_not_forgotten_as_input": ("C08", KT, [("    state.input_pressed_keys.retain(|k2| *k2 != k);\n  }\n  \n  events\n}", "  }\n  \n  events\n}")], "flushed modifier still counts as held input"),
 "M15_output_modifier_pressed_although_passed_through_EQUIVALENT": ("EQ", KT, [("      if !state.mapped_output_keys.contains(new_key) && !state.pass_through_keys.contains(new_key) {\n        events.push(Pressed(*new_key));", "      if !state.mapped_output_keys.contains(new_key) {\n        events.push(Pressed(*new_key));")], "equivalent since fix afe4401: every pass-through key the new mapping outputs has been moved to the mapped list before this test, so the extra condition is never false on its own"),
 "M16_revert_fix_F1_double_release": ("C19", KT, [("          if state.mapped_output_keys.contains(mod_key) && !keys_to_release.contains(mod_key) {", "          if state.mapped_output_keys.contains(mod_key) {")], "the pinned tree's defect F1"),
 "M17_revert_fix_F4_handback": ("C02", KT, [("      events.append(&mut release_absorbed_keys(state));\n      // Removing the absorbed keys' mappings can hand their (still physically held)\n      // output keys back to pass-through; consume those too if the new mapping uses them.\n      consume_pass_through_keys(state, m, &mut events);", "      events.append(&mut release_absorbed_keys(state));")], "the pinned tree's defect F4"),
 "M18_release_all_skips_first_key": ("C06", KT, [("    for k in to_release {\n      let mut chunk = self.step(Released(k));", "    for k in to_release.into_iter().skip(1) {\n      let mut chunk = self.step(Released(k));")], "release-all forgets one key"),
 "M19_swallowed_key_passes_when_output": ("C03", KT, [("      else if m.to.contains(&k) {\n        any_hit = true;\n        break;\n      }", "      else if false && m.to.contains(&k) {\n        any_hit = true;\n        break;\n      }")], "a key that an active mapping outputs is passed through again"),
 "M20_modifier_passthrough_flushes_action_mappings": ("C05", KT, [("      if is_action_key(&k) {\n        res.events.append(&mut release_action_mappings(&mut state));", "      if true {\n        res.events.append(&mut release_action_mappings(&mut state));")], "an uninvolved modifier press lifts outputs of mappings in effect"),
 "M21_special_wrong_interval": ("C09", KT, [("        interval_ms: *interval_ms\n      };\n      \n      // Save the key", "        interval_ms: *delay_ms\n      };\n      \n      // Save the key")], "repeat request carries the delay as interval"),
 "M22_three_key_chord_survives_first_key_release": ("C02", KT, [("fn fails_when_released(trigger: &Vec<KeyCode>, key: &KeyCode) -> bool {\n  for k in trigger {", "fn fails_when_released(trigger: &Vec<KeyCode>, key: &KeyCode) -> bool {\n  for k in trigger.iter().skip(if trigger.len() > 2 { 1 } else { 0 }) {")], "three-key chords survive the release of their first key"),
 "M23_revert_fix_F5_absorbing_trigger_overwritten": ("C08", KT, [("  if is_action_mapping(m) || m.absorbing.len() > 0 {\n    let should_absorb = {", "  if is_action_mapping(m) {\n    let should_absorb = {")], "the pinned tree's defect F5"),
 # ---------------- loop
 "L01_stop_draining_after_send": ("C10", RL, [("                          driver.send(&evs_out)?;\n                        }\n", "                          driver.send(&evs_out)?;\n                          break;\n                        }\n")], "goes back to poll with unread events"),
 "L02_swallow_send_error": ("C20", RL, [("                          driver.send(&evs_out)?;", "                          let _ = driver.send(&evs_out);")], "a failed write is ignored"),
 "L03_timer_drift": ("C11", RL, [("                  next_wakeup: next_wakeup + Duration::from_millis(interval_ms as u64),", "                  next_wakeup: Instant::now() + Duration::from_millis(interval_ms as u64),")], "deadline re-based on now"),
 "L04_nochange_disarms": ("C11", RL, [("                          ResultingRepeat::NoChange => working_repeat", "                          ResultingRepeat::NoChange => WorkingRepeat::Idle")], "ignored event stops repeating"),
 "L05_tablet_on_keeps_timer_EQUIVALENT": ("EQ", RL, [("                          in_tablet_mode = true;\n                          working_repeat = WorkingRepeat::Idle;", "                          in_tablet_mode = true;")], "the tick in tablet mode clears the timer anyway and sends nothing; only the poll timeout differs"),
 "L06_tablet_tick_sends": ("EQ", RL, [("              if !in_tablet_mode {\n                // Keys that are already held", "              if true {\n                // Keys that are already held")], "unreachable: tablet-on already clears the timer"),
 "L07_off_does_not_release": ("C12", RL, [("                          in_tablet_mode = false;\n                          working_repeat = WorkingRepeat::Idle;\n                          let release_events = mapper.release_all();", "                          in_tablet_mode = false;\n                          working_repeat = WorkingRepeat::Idle;\n                          let release_events: Vec<Event> = vec![];")], "tablet-off keeps the old mapper state (repeated Off while keys are held)"),
 "L08_send_empty_batches": ("C10", RL, [("                        if !evs_out.is_empty() {\n                          driver.send(&evs_out)?;\n                        }", "                        driver.send(&evs_out)?;")], "empty step results are written"),
 "L09_disabled_keeps_timer": ("C11", RL, [("                          ResultingRepeat::Disabled => WorkingRepeat::Idle,", "                          ResultingRepeat::Disabled => working_repeat,")], "a key change does not stop repeating"),
 "L10_first_delay_is_interval": ("C11", RL, [("                            next_wakeup: Instant::now() + Duration::from_millis(delay_ms as u64),", "                            next_wakeup: Instant::now() + Duration::from_millis(interval_ms as u64),")], "first chord after interval instead of delay"),
 "L11_maps_in_tablet_mode": ("C12", RL, [("                      if !in_tablet_mode {\n                        let step_out", "                      if true {\n                        let step_out")], "keyboard is live in tablet mode"),
 "L12_chord_not_reversed": ("C11", RL, [("                for key in (&chord_keys).iter().rev() {", "                for key in (&chord_keys).iter() {")], "chord released in listed order"),
 "L13_poll_error_retried": ("C20", RL, [("      match driver.poll(&mut poll, timeout)? {", "      match match driver.poll(&mut poll, timeout) { Ok(r) => r, Err(_) => PollResult::Interrupted } {")], "poll failure treated as an interruption"),
 "L14_revert_fix_F2_chord_with_held_keys": ("C11", RL, [("                let chord_keys: Vec<KeyCode> = keys.iter().filter(|k| !mapper.is_output_key_held(k)).cloned().collect();", "                let chord_keys: Vec<KeyCode> = keys.clone();")], "the pinned tree's defect F2"),
 "L15_tablet_on_does_not_release": ("C12", RL, [("                          in_tablet_mode = true;\n                          working_repeat = WorkingRepeat::Idle;\n                          let release_events = mapper.release_all();", "                          in_tablet_mode = true;\n                          working_repeat = WorkingRepeat::Idle;\n                          let release_events: Vec<Event> = vec![];")], "keys stay down when tablet mode starts"),
 "L16_tablet_read_error_ends_quietly": ("C20", RL, [("                  match driver.next_tablet()? {", "                  match match driver.next_tablet() { Ok(n) => n, Err(_) => Next::End } {")], "tablet read failure reported as a clean end"),
 "L17_keyboard_end_keeps_polling": ("C10", RL, [("                      if verbose { eprintln!(\"Ending remapping loop because no more keyboard events.\"); }\n                      return Ok(());", "                      if verbose { eprintln!(\"Ending remapping loop because no more keyboard events.\"); }\n                      break;")], "keeps calling the driver after the keyboard is gone"),
 "L18_only_first_device_of_wakeup": ("C10", RL, [("          for dev_ev in dev_evs {", "          for dev_ev in dev_evs.into_iter().take(1) {")], "second ready device of a wake-up is not drained"),
 "L19_interrupt_disarms_timer": ("C11", RL, [("          if verbose { eprintln!(\"poll() interrupted\"); }\n          restart_count += 1;", "          if verbose { eprintln!(\"poll() interrupted\"); }\n          working_repeat = WorkingRepeat::Idle;\n          restart_count += 1;")], "a signal stops repeating"),
 "L20_overdue_timer_waits_full_interval": ("C11", RL, [("            Some(Duration::from_millis(1))", "            Some(Duration::from_millis(30))")], "overdue timer polls with a long timeout"),
 # ---------------- the shipped RealDriver (reached through hook H3 in hybrid runs)
 "D01_real_poll_tokens_swapped": ("C10", RL, [("            KEYBOARD => {\n              res.push(Device::Keyboard)\n            },", "            KEYBOARD => {\n              res.push(Device::Tablet)\n            },")], "RealDriver::poll reports the tablet switch when the keyboard is ready"),
 "D02_real_read_error_becomes_busy": ("C20", RL, [("      Err(e) => Err(format!(\"read() from keyboard failed with {}\", e)),", "      Err(_) => Ok(Next::Busy),")], "RealDriver::next_keyboard hides read errors"),
 "D03_real_send_error_swallowed": ("C20", RL, [("      Err(e) => {\n        Err(format!(\"write() to synthetic keyboard failed with {}\", e))\n      },", "      Err(_) => {\n        Ok(())\n      },")], "RealDriver::send hides write errors"),
 "D04_real_poll_drops_tablet_token": ("C10", RL, [("            TABLET_SWITCH => {\n              res.push(Device::Tablet)\n            },", "            TABLET_SWITCH => {\n            },")], "RealDriver::poll never reports the tablet switch"),
 "D05_real_tablet_read_error_becomes_end": ("C20", RL, [("          Err(e) => Err(format!(\"read() from tablet mode switch failed with {}\", e)),", "          Err(_) => Ok(Next::End),")], "RealDriver::next_tablet turns a read error into a clean end"),
 "D06_real_keyboard_enodev_becomes_busy": ("C10", RL, [("      Err(Error::Sys(ENODEV)) => Ok(Next::End),\n      Err(e) => Err(format!(\"read() from keyboard failed with {}\", e)),", "      Err(Error::Sys(ENODEV)) => Ok(Next::Busy),\n      Err(e) => Err(format!(\"read() from keyboard failed with {}\", e)),")], "RealDriver::next_keyboard answers Busy to an unplugged keyboard: the loop never stops (system-call seam: read fails with ENODEV)"),
 "D07_real_keyboard_enodev_is_an_error": ("EQ:C10,C20,C18", RL, [("      Err(Error::Sys(ENODEV)) => Ok(Next::End),\n      Err(e) => Err(format!(\"read() from keyboard failed with {}\", e)),", "      Err(e) => Err(format!(\"read() from keyboard failed with {}\", e)),")], "RealDriver::next_keyboard reports an unplugged keyboard as an error: the loop still stops at once without further writes (no property says the result must be Ok)"),
 # ---------------- RealDriver::poll itself (syspoll runs: the simulated kernel answers its wait system call)
 "D08_real_poll_error_becomes_interrupted": ("C20", RL, [("          _ => {\n            Err(format!(\"poll failed: {}\", e))\n          }", "          _ => {\n            Ok(PollResult::Interrupted)\n          }")], "RealDriver::poll treats every failure of the wait system call as an interruption and carries on"),
 "D09_real_poll_eintr_is_a_timeout": ("C11", RL, [("          std::io::ErrorKind::Interrupted => {\n            Ok(PollResult::Interrupted)\n          },", "          std::io::ErrorKind::Interrupted => {\n            Ok(PollResult::TimedOut)\n          },")], "RealDriver::poll reports a signal interruption as a time-out: the repeat chord is written early"),
 "D10_real_poll_ignores_timeout": ("C11", RL, [("    match registry.poll.poll(&mut registry.events, timeout) {", "    let _ = timeout;\n    match registry.poll.poll(&mut registry.events, None) {")], "RealDriver::poll waits without a time-out: repeat chords never come"),
 "D11_real_poll_adds_slack": ("C11", RL, [("    match registry.poll.poll(&mut registry.events, timeout) {", "    match registry.poll.poll(&mut registry.events, timeout.map(|t| t + Duration::from_millis(8))) {")], "RealDriver::poll waits 8 ms longer than asked"),
 "D12_real_poll_eintr_is_an_error": ("C10", RL, [("          std::io::ErrorKind::Interrupted => {\n            Ok(PollResult::Interrupted)\n          },", "          std::io::ErrorKind::Interrupted => {\n            Err(format!(\"poll failed: {}\", e))\n          },")], "RealDriver::poll turns a signal interruption into a failure: the loop stops although nothing failed"),
 "D13_real_poll_timeout_in_seconds": ("C11", RL, [("    match registry.poll.poll(&mut registry.events, timeout) {", "    match registry.poll.poll(&mut registry.events, timeout.map(|t| Duration::from_secs(t.as_secs()))) {")], "RealDriver::poll truncates the time-out to whole seconds: sub-second waits return at once, the chord is written early"),
 "D14_real_poll_rounds_timeout_up": ("EQ:C10,C11,C12,C20", RL, [("    match registry.poll.poll(&mut registry.events, timeout) {", "    match registry.poll.poll(&mut registry.events, timeout.map(|t| Duration::from_millis(((t.as_micros() + 999) / 1000) as u64))) {")], "RealDriver::poll rounds the time-out up to the next millisecond (what newer mio versions do themselves): never early, less than a millisecond late"),
 # ---------------- byte layer
 "W01_release_written_as_value_2": ("C18", RW, [("        Event::Released(_) => 0\n      };", "        Event::Released(_) => 2\n      };")], "release encoded as auto-repeat"),
 "W02_no_syn_report": ("C18", RW, [("    send_type_code_value(0, 0, 0);\n    \n    write(self.fd", "    \n    write(self.fd")], "batch not terminated by SYN_REPORT"),
 "W03_reader_accepts_autorepeat": ("C18", RW, [("      if type_ == 1 && (value == 0 || value == 1) {", "      if type_ == 1 && (value == 0 || value == 1 || value == 2) {"), ("            1 => return Ok(Event::Pressed(k)),", "            1 | 2 => return Ok(Event::Pressed(k)),")], "value-2 records become presses"),
 "W04_reader_ignores_type": ("C18", RW, [("      if type_ == 1 && (value == 0 || value == 1) {", "      if (value == 0 || value == 1) {")], "LED/REL/SW records decoded as keys"),
 "W05_short_timestamp": ("C18", RW, [("      input_event_data.add_i64(0);\n      input_event_data.add_i64(0);", "      input_event_data.add_i64(0);")], "16-byte records"),
 "W06_tablet_reader_swapped": ("C18", TR, [("      if type_==5 && code==1 && value==1 {\n        return Ok(TableModeEvent::On);", "      if type_==5 && code==1 && value==0 {\n        return Ok(TableModeEvent::On);"), ("      else if type_==5 && code==1 && value==0 {\n        return Ok(TableModeEvent::Off);", "      else if type_==5 && code==1 && value==1 {\n        return Ok(TableModeEvent::Off);")], "tablet switch polarity inverted (hybrid loop runs)"),
 "W07_code_written_truncated": ("C18", RW, [("      let code = (*k) as u16;", "      let code = ((*k) as u16) & 0xff;")], "key codes above 255 wrap"),
 # ---------------- loader
 "S01_revert_fix_F3_duplicates_accepted": ("C14", FI, [("    if let Some(k) = first_duplicate(&sm.from) {", "    if let Some(k) = first_duplicate(&sm.from).filter(|_| false) {"), ("    if let Some(k) = first_duplicate(&sm.to) {", "    if let Some(k) = first_duplicate(&sm.to).filter(|_| false) {")], "the pinned tree's defect F3"),
 "S02_special_missing_field_unwrap": ("C14", LP, [("          if has_exactly_keys(special, &vec![\"keys\", \"delay_ms\", \"interval_ms\"]) {\n            let keys = special.get(\"keys\").unwrap();\n            let delay_ms = special.get(\"delay_ms\").unwrap();\n            let interval_ms = special.get(\"interval_ms\").unwrap();\n            \n            Ok(SingleRepeat::Special {", "          if has_at_least_keys(special, &vec![\"keys\", \"delay_ms\"]) {\n            let keys = special.get(\"keys\").unwrap();\n            let delay_ms = special.get(\"delay_ms\").unwrap();\n            let interval_ms = special.get(\"interval_ms\").unwrap();\n            \n            Ok(SingleRepeat::Special {")], "missing interval_ms panics"),
 "S03_number_unwrap": ("C14", LP, [("    Ok(n.as_i64().ok_or(format!(\"Invalid delay_ms number: {}\", v))? as i32)", "    Ok(n.as_i64().unwrap() as i32)")], "fractional or huge delay_ms panics"),
 "S04_overlong_row_index": ("C14", FI, [("      if char_i >= from_physical_row.len() {", "      if false && char_i >= from_physical_row.len() {")], "row letters longer than the physical row index out of bounds"),
}

def main():
    os.makedirs(OUT, exist_ok=True)
    for f in os.listdir(OUT):
        if f.endswith(".diff"): os.remove(os.path.join(OUT, f))
    index = []
    bad = 0
    for name, (prop, path, reps, note) in sorted(M.items()):
        src = open(os.path.join(REPO, path)).read()
        new = src
        ok = True
        for old, rep in reps:
            if new.count(old) != 1:
                print(f"!! {name}: anchor occurs {new.count(old)} times in {path}: {old[:60]!r}", file=sys.stderr); ok = False; break
            new = new.replace(old, rep)
        if not ok: bad += 1; continue
        diff = "".join(difflib.unified_diff(src.splitlines(True), new.splitlines(True), "a/" + path, "b/" + path))
        open(os.path.join(OUT, name + ".diff"), "w").write(diff)
        index.append({"name": name, "property": prop, "file": path, "note": note, "equivalent": prop == "EQ"})
    json.dump(index, open(os.path.join(OUT, "index.json"), "w"), indent=1)
    print(f"{len(index)} mutants written to {OUT}" + (f", {bad} anchors failed" if bad else ""))
    sys.exit(1 if bad else 0)
main()
