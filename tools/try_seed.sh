#!/bin/bash
# Runs registered checks against a seeded change, in a scratch copy outside /repo and /verif.
# usage: tools/try_seed.sh <patch.diff> <tier> <ID> [ID ...]
here="$(cd "$(dirname "$0")/.." && pwd)"
patch="$1"; tier="$2"; shift 2
work="${VERIF_SEED_WORK:-/tmp/verif-seed-work}"
rm -rf "$work/repo" "$work/verif"; mkdir -p "$work/repo" "$work/verif"
cp -r /repo/src /repo/README.md /repo/Cargo.toml "$work/repo/"
(cd "$work/repo" && patch -p1 -s < "$patch") || { echo "patch does not apply to /repo's tree"; exit 2; }
cp "$here/known_findings.json" "$work/verif/"
export CARGO_TARGET_DIR="$work/target" VERIF_DIR="$work/verif" VERIF_REPO="$work/repo"
for id in "$@"; do
  out="$("$here/check" "$id" "$tier" 2>&1)"; rc=$?
  echo "[$id $tier] exit=$rc $(echo "$out" | grep -E '^violation class' | head -1 | cut -c1-260)"
  [ $rc -eq 1 ] && cp "$(echo "$out" | grep -E '^VIOLATION' | sed -E 's/.*replay=//')" "$work/last-replay-$id.json" 2>/dev/null
  [ $rc -eq 2 ] && echo "$out" | tail -5
done
