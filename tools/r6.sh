#!/bin/bash
# Round helper: confirm a sub-agent's change in its scratch worktree, then run the intended quick
# check (and optional further checks) against it in a scratch copy.
# usage: tools/r6.sh <round-dir> <PID> <a|b> [more check IDs]
here="$(cd "$(dirname "$0")/.." && pwd)"
rd="$1"; pid="$2"; x="$3"; shift 3
d="$rd/$pid/OUT/$x"
echo "=== $pid/$x"
"$here/tools/confirm_seed.sh" "$rd/$pid" "$d" 2>&1 | tee "$d/confirm.txt"
"$here/tools/try_seed.sh" "$d/patch.diff" quick "$pid" "$@" 2>&1 | tee "$d/try.txt"
w="${VERIF_SEED_WORK:-/tmp/verif-seed-work}"
[ -f "$w/last-replay-$pid.json" ] && cp "$w/last-replay-$pid.json" "$d/found-replay.json"
rm -f "$w"/last-replay-*.json
