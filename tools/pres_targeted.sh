#!/bin/bash
# Targeted false-alarm regression: the preserving variants that touch the loop, the driver, the
# byte layer or the loader, against the checks whose machinery changed last (hybrid reads, system
# call seams, write faults). The full corpus run is `./sensitivity.sh preserving`.
# usage: tools/pres_targeted.sh [variant-dir ...]     (default: preserving/RF2-* .. RF12-*)
cd "$(dirname "$0")/.." || exit 2
dirs=("$@")
[ ${#dirs[@]} -eq 0 ] && dirs=(preserving/RF[2-9]-* preserving/RF1[0-9]-*)
for d in "${dirs[@]}"; do
  [ -f "$d/patch.diff" ] || continue
  id=$(basename "$d")
  checks=$(python3 -c "
import json,sys
m=json.load(open('$d/meta.json'))
want=['C10','C11','C12','C18','C20','C07','C01','C14','C19']
print(' '.join(c for c in want if c in m['checks'] or c in ('C07','C10','C20')))")
  echo "=== $id ($checks)"
  VERIF_SEED_WORK=/tmp/vsw3 tools/try_seed.sh "$PWD/$d/patch.diff" quick $checks
done
rm -rf /tmp/vsw3
