#!/usr/bin/env python3
# Regenerates /verif/MANIFEST.json from the table below (kept in one place so the file stays valid).
import json, os, subprocess
here = os.path.dirname(os.path.dirname(os.path.abspath(__file__)))

def repo_commits():
    out = subprocess.run(["git", "-C", "/repo", "log", "--format=%H %s"], capture_output=True, text=True).stdout
    return [l.split()[0] for l in out.splitlines() if l.split(" ", 1)[1].startswith("verif hook")]

A_NOTE = ("Also checked end to end (world E, except C06/C09): the same oracle on the outputs the real loop wrote per delivered key event when evdev bytes -> real reader -> RealDriver -> real loop -> real writer -> uinput bytes runs on pipes. Trusted: the fold definitions of 'held on the physical/virtual keyboard', the harness PRNG/scheduler, and - where the oracle uses the words "
          "'fires'/'in effect' - the ~60-line reference control model R (sim/src/refmodel.rs). Real code: Mapper::for_layout/step/release_all, "
          "the JSON parser and the converter (every layout is loaded through them). Sampled, not enumerated. One generated layout in four is handed over as a text with repeat-only entries, one random-layout case in ten as a text in the alias shorthand; the oracles judge against the plain list of mappings the text means. One random-layout case in 48 has a wide shape (9-40 mappings on one final key, triggers of 5-10 keys, outputs of 5-14 keys, long Special and absorbing lists, 20-60 mappings) with up to 12 keys held; half of the marathon histories with reset blocks have them after round numbers of delivered events (127, 128, 255, 256, 257, 512, 1024, ...) only.")
B_NOTE = ("Trusted: the simulated driver (edge-triggered readiness, discrete-event clock) and RefLoop (sim/src/loopsim.rs), which replays the recorded "
          "trace against its own real Mapper. Real code: do_remapping_loop_one_device and the mapper inside it, reached through hook H1. "
          "In hybrid campaigns also the shipped RealDriver (hook H3) with the real readers/writer on pipes. In syspoll runs RealDriver::poll itself runs with the loop's own time-out (hook H5) on top of a simulated wait system call; unplug is ENODEV at the read(2) seam. One run in six has long pauses (3 s to a day) between key events with whatever is held staying held; half of the marathons with a tablet switch have its changes after round numbers of key events only; one random layout in 48 has a wide shape. Not covered: uinput ioctls (DevInputWriter::open), the multi-device thread spawners, a driver that reads the clock itself.")

CHECKS = {
 "C01": ("exploration", "seeded simulation of key actors + faulty delivery channel against the real mapper; invariant after every event", "3.A, 4 C01",
         "Invariant 'nothing held physically => nothing held virtually' evaluated after every delivered event and every release-all, over seeded schedules of key actors, chord intents, channel faults (duplicate, spurious release, drop) and reset blocks, on shipped and random layouts. Exploration is the right level: the quantifier is over unbounded histories and all accepted layouts, which can only be sampled.", A_NOTE),
 "C02": ("exploration", "seeded simulation against the real mapper; four per-step invariants on the folded output", "3.A, 4 C02",
         "Clauses (a)-(c) are checked from the layout and the folds alone; (d) uses R for 'in effect'. Evaluated at every prefix of every sampled history.", A_NOTE),
 "C03": ("exploration", "seeded simulation on layouts with distinguishable outputs; fired mapping read off the output stream", "3.A, 4 C03",
         "Non-absorbing layouts (distinguishable, general random, shipped), from every reached state: which mapping fires, press obligations, pass-through last, swallowed presses.", A_NOTE),
 "C04": ("exploration", "seeded simulation; modifier set replayed to the instant the final output key goes down", "3.A, 4 C04",
         "For every fired key-producing mapping the step's events are replayed to the instant of the final key press: required modifiers down, no stale modifier. Judged on absorbing layouts as well (the statement does not exclude them).", A_NOTE),
 "C05": ("exploration", "seeded simulation with foreign keys; per-step non-interference relations", "3.A, 4 C05",
         "Foreign keys, release locality and exclusive outputs of mappings that stay in effect, over interleavings of foreign keys, chords and ill-formed events; empty layout checked for stream equality. Clauses (b) and (c) are judged on absorbing layouts as well.", A_NOTE),
 "C06": ("exploration", "seeded simulation with reset blocks; behavioural comparison with a fresh twin mapper on every continuation", "3.A, 4 C06",
         "After every rest and every release-all (with unseen activity around it) a fresh twin mapper receives the same continuation; full StepResults must be equal.", A_NOTE),
 "C07": ("exploration", "seeded simulation on layouts mixing Disabled/Special with Normal mappings", "3.A, 4 C07",
         "After a no-repeat firing no non-modifier key is down, each output was pressed during the step, and later releases make nothing held. End to end, one run in eight has a write(2) on the virtual keyboard fail at a numbered system call (for good or for a moment): a no-repeat step that a reported failure cut between a press and its release leaves a key down (C07-partial-step); steps completed before the failure are judged as usual.", A_NOTE),
 "C08": ("exploration", "seeded simulation on absorbing layouts with distinguishable outputs; per-modifier absorb-epoch monitor", "3.A, 4 C08",
         "Epoch monitor per absorbed key: no mapping requiring it fires on other presses, it is not down when a non-modifier goes down, re-press of the same trigger fires again, and it counts again after release+press.", A_NOTE),
 "C09": ("exploration", "seeded simulation; StepResult.repeat compared with the reference outcome of every step", "3.A, 4 C09",
         "Expected repeat request per step from R's classification (Ignored => NoChange, Special firing => exact Repeating payload, otherwise Disabled).", A_NOTE),
 "C19": ("exploration", "seeded simulation; strict fold of all step and release-all outputs", "3.A, 4 C19",
         "Every emitted event is folded strictly: a press of a down key or a release of an up key is a violation (world A over step and release-all outputs; world B over every batch the real loop writes except timer chords, which C11 owns). No reference model involved in world A.", A_NOTE),
 "C10": ("exploration", "discrete-event simulation of the real event loop under a simulated driver; trace refinement against RefLoop and the drain-to-Busy rule", "3.B, 4 C10",
         "The real per-device loop runs on a simulated driver with edge-triggered readiness; arrival batching, device order, latency, signal interruptions with back-off, spurious time-outs/readiness and device removal are drawn from a decision tape. The recorded trace must refine RefLoop: every non-empty mapper step written once and in order, every notified device read until Busy/End before the next poll, no call after End. A hybrid campaign runs the shipped RealDriver (hook H3) on pipes underneath the simulated schedule and cross-checks its zero-timeout poll (token to device mapping, edge-triggered readiness) at every wake-up. In half of the hybrid runs the loop's poll is the shipped RealDriver::poll itself, called with the loop's own time-out; the wait system call it makes (epoll_wait through mio) is answered by the simulated kernel at a system-call seam (EINTR at an arbitrary instant, time-out, fabricated readiness, stale edge dropped), so the mapping of EINTR / 0 events / ready tokens into Interrupted / TimedOut / DeviceEvent runs inside whole loop histories and is compared with what the kernel answered.", B_NOTE),
 "C11": ("exploration", "discrete-event simulation with a simulated clock; exact timeout/deadline prediction and chord payload check", "3.B, 4 C11",
         "The clock is simulated, so every poll timeout is predicted (None while unarmed is wrong when armed; the wait must end at the deadline, which lies between the read of the arming event and the next wait and is exact afterwards; at most 1 ms when overdue; a wait that ends earlier is legal and owes nothing); timings range from 0 ms to a day; chords are sent iff a time-out occurs while armed and not in tablet mode, with the payload 'repeat keys not already held, listed order, reverse release', and leave the held set unchanged. A third campaign (syspoll) runs the loop on the shipped RealDriver::poll: the time-out the loop computes goes through mio into epoll_wait, which the simulated kernel answers with millisecond granularity; a wait system call longer than what the loop asked for, or a time-out reported before the asked time (less 1 ms) has passed - e.g. an interruption reported as a time-out - is C11-hybrid.", B_NOTE),
 "C12": ("exploration", "discrete-event simulation with tablet-switch arrivals interleaved with key arrivals and timer ticks", "3.B, 4 C12",
         "Tablet on/off events (repeated, during chords, with a timer armed, in the same wake-up as key events in both orders): release batch equals the held keys (as a set), no write until Off is read, and afterwards the loop must behave like RefLoop continued with a brand-new mapper (C12-not-fresh), so state carried across the change by the mapper or the timer is visible. The release of a key whose press was not handed to the mapper since the last change is owed nothing, whatever the mapper under test answers (C12-orphan-release). A hybrid campaign runs the shipped RealDriver on pipes: not reporting a tablet switch that has unread data (or a hang-up) counts against 'immediately' (C12-hybrid). In hybrid runs the loop gets exactly what the shipped readers make of the bytes (nothing is repaired from the script); a tablet reader that loses, invents or garbles a switch event is C12-hybrid, and events the keyboard reader makes up (marked phantom) do not count as presses for the 'pressed before or during tablet mode' rule.", B_NOTE),
 "C14": ("exploration", "stored-file fault simulation (torn/corrupted layout file) through the real loader, then the real mapper under key histories; exhaustive truncation sweep of shipped texts", "3.D, 4 C14",
         "A real file is written, faulted (truncation at every offset of every shipped text exhaustively; random truncation, bit flips, block duplication/drop/transposition, garbage, empty, bad paths, non-UTF-8 otherwise) and loaded by the real load_layout_from_file; accepted layouts are installed in a real Mapper and driven by seeded histories. Any unwind is a violation. The file is also reached through symlinks (plain, to a non-UTF-8 name, dangling, self-referential) and oddly named paths, and read under storage faults injected at the read(2) seam: short counts, EIO after n bytes, EINTR.",
         "Trusted: catch_unwind observes every panic. Real code: load_layout_from_file (real file I/O), serde_json, parser, converter, Mapper. The byte-string quantifier is sampled from a grammar plus faults; weakest fit of the claimed properties (first clause is mostly decided by the generated workload)."),
 "C18": ("exploration", "byte-level simulation on non-blocking pipes: real writer vs libc::input_event, real reader on interleaved streams across EAGAIN boundaries; hybrid loop runs", "3.C, 4 C18",
         "The simulator plays the uinput consumer and the evdev node on pipes: bytes of every batch are compared record by record with libc::input_event; the tool's reader must decode them back; on streams interleaving foreign records it must return exactly the press/release records with known codes. The sweep over all known key codes x {press, release} is exhaustive; batches/interleavings are sampled; hybrid world-B runs put the byte layer under whole loop histories. Backlogs of 30-700 skippable records before a key record; unknown codes up to 0xffff; one case in 100 on a newly started thread (cold per-thread state); hybrid runs with write(2) failures at numbered system calls, where what arrived on the device is decoded whatever the writer reports.",
         "Trusted: libc::input_event for this target; KeyCode discriminants = kernel key numbers. Real code: DevInputWriter::send, StructSerializer, DevInputReader::next, TabletModeSwitchReader::next. Host ABI only."),
 "C20": ("fault_enumeration", "per-call I/O fault sweep: every driver call of every sampled schedule fails in turn", "3.B, 4 C20",
         "For each sampled (layout, schedule, tape) the fault-free run is executed once to learn its n driver calls, then re-executed n times with exactly the k-th call (register, poll, read or send) returning an error, for every k. The loop must return that error and write nothing afterwards. Two further sweeps go below the driver seam in hybrid runs: every send with the OS-level write under the shipped RealDriver/DevInputWriter failing (EAGAIN, EPIPE, EBADF) and every keyboard/tablet read failing (EBADF). Enumeration over fault positions is complete per schedule; schedules are sampled. In the runs whose poll goes through the shipped RealDriver::poll every wait system call fails in turn as well (EBADF, EINVAL, EFAULT). The read(2) calls on the device descriptors are numbered and swept twice: failing from the n-th call on (EIO: the descriptor is dead) and failing at the n-th call only (a transient failure; the device works again afterwards) - in both cases the error must reach the loop's caller, at the latest after the records that were waiting in the device queue before the failing call.", B_NOTE),
}

NOT_APPLICABLE = {
 "C13": "pure compiler from one JSON value to a list of mappings: no schedule, clock, fault, I/O or second party for a simulator to control (differential testing would decide it, which is another technique)",
 "C15": "serialise-then-parse round trip is a composition of two pure functions of one layout value; the statement has no crash, fault or interleaving in it",
 "C16": "classification is a pure function of one /proc text and a pattern list; the extractors are stateless across calls",
 "C17": "the ExecStart escaper is a pure &str -> String function",
}
PENDING = {}

def main():
    checks = []
    for pid in sorted(CHECKS):
        level, technique, ref, text, note = CHECKS[pid]
        checks.append({
            "property_id": pid,
            "quick_cmd": f"./check {pid} quick",
            "thorough_cmd": f"./check {pid} thorough",
            "evidence_file": f"/verif/evidence/{pid}.json",
            "replay_cmd_template": "./check --replay {path}",
            "engine": "sim",
            "level_claimed": {"category": level, "text": text, "design_ref": "DESIGN.md " + ref},
            "level_note": note,
            "technique": "deterministic simulation with fault injection: " + technique,
        })
    na = [{"property_id": k, "reason": v} for k, v in sorted({**NOT_APPLICABLE, **{k: v for k, v in PENDING.items() if k not in CHECKS}}.items())]
    m = {
        "version": 1,
        "setup_cmd": "cd /verif/sim && CARGO_NET_OFFLINE=true cargo build --release",
        "hooks": {
            "guard": "ellbur_totalmapper_verif",
            "enable": "RUSTFLAGS='--cfg ellbur_totalmapper_verif' (set in /verif/sim/.cargo/config.toml; the harness crate mounts /repo/src/*.rs as modules via build.rs)",
            "baseline_off_cmd": "cd /repo && cargo test --workspace --no-fail-fast --offline",
            "source_commits": repo_commits(),
            "add_only": True,
        },
        "engines": [{
            "name": "sim", "path": "/verif/sim", "serves_properties": sorted(CHECKS),
            "kind_free_text": "single-process deterministic simulator (Rust): seeded scheduler of key actors / device arrivals, simulated driver+clock for the real event loop, pipe-backed byte layer under the shipped RealDriver, end-to-end world (bytes -> reader -> loop -> writer -> bytes), faulted layout store; reference models as oracles; replay files with minimised cases",
        }],
        "checks": checks,
        "not_applicable": na,
        "notes": "Exit codes of every command: 0 held, 1 VIOLATION, 2 harness error. VERIF_SEED / VERIF_TIER are honoured. Replay: ./check --replay <file>. Determinism self-test: ./check selftest [--large]. Sensitivity suite: ./sensitivity.sh. Known findings: /verif/known_findings.json.",
    }
    with open(os.path.join(here, "MANIFEST.json"), "w") as f:
        json.dump(m, f, indent=1)
        f.write("\n")
main()
